"""SimExecutor / SimFuture / wait: stand-ins for concurrent.futures on sim primitives.

Mirrors ThreadPoolExecutor: FIFO work queue, up to max_workers worker threads created on demand,
shutdown(wait=True) joins workers after the queue drains.  SimFuture hashes by creation serial so
sets of futures iterate deterministically.
"""
from collections import namedtuple, deque

from .core import Sim, SimThread, SimCondition

FIRST_COMPLETED = 'FIRST_COMPLETED'
FIRST_EXCEPTION = 'FIRST_EXCEPTION'
ALL_COMPLETED = 'ALL_COMPLETED'
DoneAndNotDone = namedtuple('DoneAndNotDoneFutures', 'done not_done')


class CancelledError(Exception):
    pass


class InvalidStateError(Exception):
    pass


class SimFuture(object):
    _serial = [0]

    def __hash__(self):
        return self._h

    def __init__(self):
        SimFuture._serial[0] += 1
        self._h = SimFuture._serial[0]
        self._cond = SimCondition()
        self._state = 'PENDING'
        self._result = None
        self._exc = None
        self._cbs = []
        self._waiters = []

    def cancel(self):
        with self._cond:
            if self._state in ('RUNNING', 'FINISHED'):
                return False
            if self._state == 'CANCELLED':
                return True
            self._state = 'CANCELLED'
            self._cond.notify_all()
        self._invoke()
        return True

    def cancelled(self):
        return self._state == 'CANCELLED'

    def running(self):
        return self._state == 'RUNNING'

    def done(self):
        return self._state in ('CANCELLED', 'FINISHED')

    def add_done_callback(self, fn):
        with self._cond:
            if not self.done():
                self._cbs.append(fn)
                return
        try:
            fn(self)
        except Exception:
            pass

    def _invoke(self):
        for w in list(self._waiters):
            w.set_one(self)
        for cb in self._cbs:
            try:
                cb(self)
            except Exception:
                pass

    def result(self, timeout=None):
        with self._cond:
            if not self.done():
                self._cond.wait(timeout)
            if self._state == 'CANCELLED':
                raise CancelledError()
            if not self.done():
                raise TimeoutError()
            if self._exc:
                raise self._exc
            return self._result

    def exception(self, timeout=None):
        with self._cond:
            if not self.done():
                self._cond.wait(timeout)
            if self._state == 'CANCELLED':
                raise CancelledError()
            if not self.done():
                raise TimeoutError()
            return self._exc

    def set_running_or_notify_cancel(self):
        with self._cond:
            if self._state == 'CANCELLED':
                return False
            self._state = 'RUNNING'
            return True

    def set_result(self, result):
        with self._cond:
            if self._state in ('CANCELLED', 'FINISHED'):
                raise InvalidStateError('%s: %r' % (self._state, self))
            self._result = result
            self._state = 'FINISHED'
            self._cond.notify_all()
        self._invoke()

    def set_exception(self, exc):
        with self._cond:
            if self._state in ('CANCELLED', 'FINISHED'):
                raise InvalidStateError('%s: %r' % (self._state, self))
            self._exc = exc
            self._state = 'FINISHED'
            self._cond.notify_all()
        self._invoke()


class _Waiter(object):
    def __init__(self, n, first):
        self.cond = SimCondition()
        self.n = n
        self.first = first
        self.fired = False

    def set_one(self, f):
        with self.cond:
            self.n -= 1
            if self.first or self.n <= 0:
                self.fired = True
                self.cond.notify_all()


def wait(fs, timeout=None, return_when=ALL_COMPLETED):
    fs = set(fs)
    done = set(f for f in fs if f.done())
    not_done = fs - done
    if (return_when == FIRST_COMPLETED and done) or not not_done:
        return DoneAndNotDone(done, not_done)
    w = _Waiter(len(not_done), return_when == FIRST_COMPLETED)
    for f in not_done:
        f._waiters.append(w)
    with w.cond:
        ndone = sum(1 for f in not_done if f.done())
        finished = (ndone > 0) if return_when == FIRST_COMPLETED else (ndone == len(not_done))
        if not finished and not w.fired:
            w.cond.wait(timeout)
    for f in not_done:
        if w in f._waiters:
            f._waiters.remove(w)
    done = set(f for f in fs if f.done())
    return DoneAndNotDone(done, fs - done)


class SimExecutor(object):
    def __init__(self, max_workers=2, **kw):
        self._cond = SimCondition()
        self._q = deque()
        self._shutdown = False
        self._workers = []
        self._max = max_workers
        self._idle = 0

    def submit(self, fn, *args, **kwargs):
        with self._cond:
            if self._shutdown:
                raise RuntimeError('cannot schedule new futures after shutdown')
            f = SimFuture()
            self._q.append((f, fn, args, kwargs))
            if self._idle == 0 and len(self._workers) < self._max:
                t = SimThread(target=self._work, name='executor', daemon=True)
                self._workers.append(t)
                t.start()
            self._cond.notify()
        return f

    def _work(self):
        while True:
            with self._cond:
                while not self._q:
                    if self._shutdown:
                        return
                    self._idle += 1
                    self._cond.wait()
                    self._idle -= 1
                f, fn, args, kwargs = self._q.popleft()
            if not f.set_running_or_notify_cancel():
                continue
            try:
                r = fn(*args, **kwargs)
            except BaseException as e:
                if type(e).__name__ == '_Abort':
                    raise
                f.set_exception(e)
            else:
                f.set_result(r)

    def shutdown(self, wait=True, cancel_futures=False):
        with self._cond:
            self._shutdown = True
            self._cond.notify_all()
        if wait:
            me = Sim.current.running
            for t in self._workers:
                if t is not me:
                    t.join()
