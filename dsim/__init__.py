"""dsim - deterministic simulation of datastax/python-driver (see /verif/DESIGN.md)."""
