"""Command line: check <Cnn> [--tier quick|thorough] | replay <file> | selftest-determinism | once."""
import json
import os
import sys


def main(argv):
    if os.environ.get('PYTHONHASHSEED') != '0':
        os.environ['PYTHONHASHSEED'] = '0'
        os.execv(sys.executable, [sys.executable, '-m', 'dsim.cli'] + argv)
    from . import runner
    if not argv:
        print(__doc__)
        return 2
    cmd = argv[0]
    if cmd == 'setup':
        # nothing to build (pure Python): verify the driver imports on the simulated libev
        from . import seams
        m = seams.install_static()
        import cassandra
        print('setup ok: cassandra-driver %s from %s; DefaultConnection=%s' % (
            cassandra.__version__, os.path.dirname(cassandra.__file__), m['ccl'].DefaultConnection.__name__))
        return 0
    if cmd == 'replay':
        return runner.replay_file(argv[1])
    if cmd == 'selftest-determinism':
        from . import selftest
        return selftest.determinism(argv[1:])
    if cmd == 'once':
        # once <Cnn> <index> [tier]  - run one seed in-process-forked and dump the result
        pid = argv[1].upper()
        idx = int(argv[2])
        tier = argv[3] if len(argv) > 3 else 'quick'
        master = int(os.environ.get('VERIF_SEED', '1'))
        prop = runner.load_prop(pid)
        if hasattr(prop, 'prepare'):
            prop.prepare()
        seed = runner.run_seed(master, pid, idx)
        plan = prop.gen_plan(runner.plan_rng(seed), tier)
        res = runner.fork_run(prop, plan, seed, wall_cap=600)
        res['plan'] = plan
        print(json.dumps(res, indent=1, default=repr))
        return 0
    pid = cmd.upper()
    tier = os.environ.get('VERIF_TIER', 'quick')
    if '--tier' in argv:
        tier = argv[argv.index('--tier') + 1]
    master = int(os.environ.get('VERIF_SEED', '1'))
    return runner.run_check(pid, tier, master)


if __name__ == '__main__':
    sys.exit(main(sys.argv[1:]))
