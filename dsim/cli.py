"""Command line: check <Cnn> [--tier quick|thorough] | replay <file> | selftest-determinism | once."""
import json
import os
import sys


def main(argv):
    want = os.environ.get('VERIF_HASHSEED', '0')       # the self-test runs worlds under another hash seed on purpose
    if os.environ.get('PYTHONHASHSEED') != want:
        os.environ['PYTHONHASHSEED'] = want
        os.execv(sys.executable, [sys.executable, '-m', 'dsim.cli'] + argv)
    from . import runner
    if not argv:
        print(__doc__)
        return 2
    cmd = argv[0]
    if cmd == 'setup':
        # nothing to build (pure Python): verify the driver imports on the simulated libev
        from . import seams
        m = seams.install_static()
        import cassandra
        print('setup ok: cassandra-driver %s from %s; DefaultConnection=%s' % (
            cassandra.__version__, os.path.dirname(cassandra.__file__), m['ccl'].DefaultConnection.__name__))
        return 0
    if cmd == 'replay':
        return runner.replay_file(argv[1])
    if cmd == 'selftest-determinism':
        from . import selftest
        return selftest.determinism(argv[1:])
    if cmd == 'digests':
        from . import selftest
        return selftest.digests_cmd(argv[1:])
    if cmd == 'debug':
        # debug <harness-or-replay json> [step cap]: run in-process, dump sim-thread stacks at the end
        import sys as _s, traceback, json as _j
        from . import core
        doc = _j.load(open(argv[1]))
        prop = runner.load_prop(doc.get('property') or os.path.basename(argv[1]).split('-')[1])
        prop.prepare()
        if len(argv) > 2:
            _orig = core.Sim.__init__

            def _init(self, *a, **k):
                k['step_cap'] = int(argv[2])
                _orig(self, *a, **k)
            core.Sim.__init__ = _init
        try:
            out = prop.run_plan(doc['plan'], doc['seed'], None)
            print(_j.dumps(out, indent=1, default=repr)[:3000])
        except BaseException as e:
            print('EXC', repr(e))
        from props import common as _c
        for x in _c.LOGS[:40]:
            print('LOG', x)
        from . import libev as _lv
        net = _lv._net[0]
        print('now', core.Sim.current.vnow())
        for sk in net.all_socks:
            c = sk.conn
            print('SOCK fd=%d closed=%s err=%s eof=%s rbuf=%d conn=%s reset=%s inflight=%s' % (sk.fd, sk.closed, sk.err, sk.eof, len(sk.rbuf), c and c.label, c and c.reset, c and c.c2s_inflight))
        import cassandra.io.libevreactor as _lr
        gl = _lr._global_loop
        if gl is not None:
            for w_ in gl._loop.io:
                if w_.active: print('IOWATCH fd=%d events=%d ready=%d' % (w_.sock.fd, w_.events, w_.ready()))
            for cn in gl._live_conns: print('LIVE', cn._socket.fd, 'defunct', cn.is_defunct, 'closed', cn.is_closed, 'deque', len(cn.deque), 'wactive', cn._write_watcher_is_active)
            print('timers', [(t_.active, t_.at, t_.repeat) for t_ in gl._loop.timers], 'queue', [(e_[0], e_[1].canceled) for e_ in gl._timers._queue][:5])
        sim = core.Sim.current
        frames = _s._current_frames()
        for t in sim.threads:
            print('---', t.name, t.state, t.why, 'deadline', t.deadline)
            f = frames.get(t.real_ident)
            if f is not None and t.state != 'done':
                print(''.join(traceback.format_stack(f)[-9:]))
        os._exit(0)
    if cmd == 'once':
        # once <Cnn> <index> [tier]  - run one seed in-process-forked and dump the result
        pid = argv[1].upper()
        idx = int(argv[2])
        tier = argv[3] if len(argv) > 3 else 'quick'
        master = int(os.environ.get('VERIF_SEED', '1'))
        prop = runner.load_prop(pid)
        if hasattr(prop, 'prepare'):
            prop.prepare()
        seed = runner.run_seed(master, pid, idx)
        plan = prop.gen_plan(runner.plan_rng(seed), tier)
        res = runner.fork_run(prop, plan, seed, wall_cap=600)
        res['plan'] = plan
        print(json.dumps(res, indent=1, default=repr))
        return 0
    pid = cmd.upper()
    tier = os.environ.get('VERIF_TIER', 'quick')
    if '--tier' in argv:
        tier = argv[argv.index('--tier') + 1]
    master = int(os.environ.get('VERIF_SEED', '1'))
    return runner.run_check(pid, tier, master)


if __name__ == '__main__':
    sys.exit(main(sys.argv[1:]))
