"""Simulated TCP: SimSocket (driver side) + Conn (one connection) + SimNet (listeners, faults).

TCP semantics inside a live connection: per-direction strictly FIFO byte pipes, no loss,
duplication or reordering.  Faults are at connection level: refuse, SYN black-hole, RST, EOF,
black-hole (partition), stall, back-pressure (partial writes / EAGAIN), and - only when a plan
asks for it - one bit flip in transit.
"""
import errno
import socket as _socket

from .core import Sim


class Conn(object):
    def __init__(self, net, sock, addr):
        sim = net.sim
        self.net = net
        self.sock = sock
        self.addr = addr
        self.label = sim.label('conn')
        self.established = False
        self.handler = None          # server-side object: on_data(conn, bytes), on_close(conn)
        self.client_closed = False
        self.server_closed = False
        self.reset = False
        self.blackhole = False       # both directions silently queue
        self.held_s2c = []           # chunks held while black-holed
        self.held_c2s = []
        self.c2s_inflight = 0
        self.last_s2c = 0.0
        self.last_c2s = 0.0
        self.bytes_c2s = 0
        self.bytes_s2c = 0
        self.flip_at = None          # absolute s2c byte offset whose lowest bit is flipped
        self.flip_bit = 0
        self.opened_at = sim.now
        self.closed_at = None
        self.fault_log = []          # (vtime, kind)
        self.current_send_seq = 0

    # ------------------------------------------------------------ server -> client
    def server_send(self, data, latency=None, cuts=None):
        """Queue bytes towards the client; chunked, FIFO, arbitrary (monotone) delays."""
        if self.reset or self.server_closed or not data:
            return
        net = self.net
        sim = net.sim
        rng = sim.net_rng
        data = bytes(data)
        if self.flip_at is not None:
            lo = self.bytes_s2c
            if lo <= self.flip_at < lo + len(data):
                b = bytearray(data)
                b[self.flip_at - lo] ^= (1 << self.flip_bit)
                data = bytes(b)
                self.fault_log.append((sim.vnow(), 'bitflip'))
                net.count('bitflip')
                self.flip_at = None
        self.bytes_s2c += len(data)
        if latency is None:
            latency = net.latency(self)
        t = max(sim.now + latency, self.last_s2c)
        pieces = net.chunk(data, cuts)
        for i, p in enumerate(pieces):
            if i < 64:
                t += net.inter_chunk_gap()
            self.last_s2c = t
            if self.blackhole:
                self.held_s2c.append(p)
            else:
                sim.at_abs(t, (lambda c=p: self._deliver_to_client(c)), 's2c %s %dB' % (self.label, len(p)))

    def _deliver_to_client(self, chunk):
        if self.reset or self.client_closed:
            return
        if self.blackhole:
            self.held_s2c.append(chunk)
            return
        self.sock._arrive(chunk)

    def server_close(self, latency=None):
        """Orderly EOF after everything already queued."""
        if self.server_closed or self.reset:
            return
        self.server_closed = True
        sim = self.net.sim
        if latency is None:
            latency = self.net.latency(self)
        t = max(sim.now + latency, self.last_s2c)
        self.last_s2c = t
        sim.at_abs(t, self._eof_to_client, 'eof %s' % self.label)

    def _eof_to_client(self):
        if self.reset or self.client_closed or self.blackhole:
            return
        self.sock._eof()

    def rst(self, why='rst'):
        if self.reset:
            return
        self.reset = True
        sim = self.net.sim
        self.fault_log.append((sim.vnow(), why))
        self.net.count(why)
        sim.rec('fault', '%s %s' % (why, self.label))
        if not self.client_closed:
            self.sock._error(errno.ECONNRESET)
        self._server_side_closed()

    def set_blackhole(self, on):
        sim = self.net.sim
        if on and not self.blackhole:
            self.blackhole = True
            self.fault_log.append((sim.vnow(), 'blackhole'))
            self.net.count('blackhole')
            sim.rec('fault', 'blackhole %s' % self.label)
        elif not on and self.blackhole:
            self.blackhole = False
            sim.rec('fault', 'heal %s' % self.label)
            held, self.held_s2c = self.held_s2c, []
            t = max(sim.now + self.net.latency(self), self.last_s2c)
            for p in held:
                self.last_s2c = t
                sim.at_abs(t, (lambda c=p: self._deliver_to_client(c)), 's2c-held %s' % self.label)
            heldc, self.held_c2s = self.held_c2s, []
            t = max(sim.now + self.net.latency(self), self.last_c2s)
            for p in heldc:
                self.last_c2s = t
                sim.at_abs(t, (lambda c=p: self._deliver_to_server(c)), 'c2s-held %s' % self.label)

    # ------------------------------------------------------------ client -> server
    def client_send(self, data):
        sim = self.net.sim
        self.bytes_c2s += len(data)
        self.c2s_inflight += len(data)
        t = max(sim.now + self.net.latency(self), self.last_c2s)
        self.last_c2s = t
        mark = sim.nlog            # when the driver handed these bytes to the socket
        if self.blackhole:
            self.held_c2s.append((data, mark))
        else:
            sim.at_abs(t, (lambda: self._deliver_to_server((data, mark))), 'c2s %s %dB' % (self.label, len(data)))

    def _deliver_to_server(self, item):
        data, mark = item
        if self.blackhole:
            self.held_c2s.append(item)
            return
        self.current_send_seq = mark
        self.c2s_inflight -= len(data)
        if not self.client_closed:
            self.sock._notify()      # room in the send buffer again
        if self.reset or self.server_closed:
            return
        h = self.handler
        if h is not None:
            h.on_data(self, data)

    def client_close(self):
        if self.client_closed:
            return
        self.client_closed = True
        sim = self.net.sim
        self.closed_at = sim.now
        if self.reset or self.blackhole:
            return
        t = max(sim.now + self.net.latency(self), self.last_c2s)
        self.last_c2s = t
        sim.at_abs(t, self._server_side_closed, 'fin %s' % self.label)

    def _server_side_closed(self):
        h = self.handler
        if h is not None and not getattr(self, '_h_closed', False):
            self._h_closed = True
            h.on_close(self)


class SimSocket(object):
    def __init__(self, net):
        self.net = net
        self.fd = net.next_fd
        net.next_fd += 1
        net.socks[self.fd] = self
        net.all_socks.append(self)
        self.rbuf = bytearray()
        self.eof = False
        self.err = None
        self.closed = False
        self.conn = None
        self.timeout = None
        self.connect_waiters = []
        self.connected = False
        self.listeners = []          # callables run when readiness may have changed
        self.label = None
        self.opened_by = Sim.current.running.name if Sim.current.running is not None else 'ctrl'
        self.owner_tag = None
        self.closed_seq = None
        self.closed_t = None
        self.closed_by = None
        self.opened_seq = Sim.current.nlog
        self.opened_t = Sim.current.vnow()
        try:
            import sys as _sys
            f = _sys._getframe(1)
            st = []
            while f is not None and len(st) < 14:
                fn = f.f_code.co_filename
                if '/cassandra/' in fn:
                    st.append('%s:%d:%s' % (fn.split('/cassandra/')[-1], f.f_lineno, f.f_code.co_name))
                f = f.f_back
            self.opened_stack = st
        except Exception:
            self.opened_stack = []

    def fileno(self):
        return self.fd

    def settimeout(self, t):
        self.timeout = t

    def gettimeout(self):
        return self.timeout

    def setblocking(self, b):
        pass

    def setsockopt(self, *a):
        pass

    def getpeername(self):
        return self.conn.addr if self.conn else ('0.0.0.0', 0)

    def getsockname(self):
        return ('127.0.0.1', 40000 + self.fd)

    # readiness
    def readable(self):
        return bool(self.rbuf) or self.eof or self.err is not None

    def writable(self):
        if self.closed:
            return False
        if self.err is not None:
            return True
        c = self.conn
        if getattr(self, 'force_eagain', False):
            return getattr(self, 'room_left', 0) > 0
        return c is not None and c.c2s_inflight < self.net.sndbuf

    def _notify(self):
        for fn in list(self.listeners):
            fn()

    # network side (controller context)
    def _arrive(self, data):
        if self.closed:
            return
        self.rbuf += data
        self._notify()

    def _eof(self):
        self.eof = True
        self._notify()

    def _error(self, code):
        self.err = code
        sim = Sim.current
        for w in list(self.connect_waiters):
            sim.wake(w)
        self._notify()

    # driver side
    def connect(self, sockaddr):
        sim = Sim.current
        net = self.net
        if self.closed:
            raise _socket.error(errno.EBADF, 'Bad file descriptor')
        sim.rec('sock.connect', '%s fd=%d' % (sockaddr[0], self.fd))
        net.begin_connect(self, sockaddr)
        sim.yield_('connect')
        if not self.connected and self.err is None:
            sim.block(self.connect_waiters, self.timeout, 'connect')
        if self.err is not None:
            e = self.err
            raise _socket.error(e, 'sim connect error %s' % errno.errorcode.get(e, e))
        if not self.connected:
            raise _socket.timeout('timed out')

    def connect_ex(self, sockaddr):
        try:
            self.connect(sockaddr)
        except _socket.error as e:
            return e.errno or errno.ETIMEDOUT
        return 0

    def send(self, data):
        sim = Sim.current
        net = self.net
        if self.closed:
            raise _socket.error(errno.EBADF, 'Bad file descriptor')
        if self.err is not None:
            raise _socket.error(self.err, 'sim socket error')
        c = self.conn
        if c is None or not self.connected:
            raise _socket.error(errno.ENOTCONN, 'not connected')
        room = net.sndbuf - c.c2s_inflight
        if getattr(self, 'force_eagain', False):
            # injected back-pressure: the peer stopped reading; only `room_left` more bytes fit, then EAGAIN for good
            room = min(room, getattr(self, 'room_left', 0))
        if room <= 0:
            net.count('eagain')
            raise _socket.error(errno.EAGAIN, 'would block')
        n = min(len(data), room)
        if getattr(self, 'force_eagain', False):
            self.room_left = getattr(self, 'room_left', 0) - n
        if n > 1 and net.partial_write_p and not getattr(self, 'force_eagain', False) and sim.net_rng.random() < net.partial_write_p:
            n = sim.net_rng.randrange(1, n + 1)
            if n < len(data):
                net.count('partial_write')
        c.client_send(bytes(data[:n]))
        sim.yield_('send')
        return n

    def sendall(self, data):
        pos = 0
        data = bytes(data)
        sim = Sim.current
        while pos < len(data):
            try:
                pos += self.send(data[pos:])
            except _socket.error as e:
                if e.errno == errno.EAGAIN and sim.running is not None:
                    sim.block([], 0.001, 'sendall-wait')
                    continue
                raise

    def recv(self, n):
        if self.closed:
            raise _socket.error(errno.EBADF, 'Bad file descriptor')
        if not self.rbuf:
            if self.err is not None:
                raise _socket.error(self.err, 'sim socket error')
            if self.eof:
                return b''
            raise _socket.error(errno.EAGAIN, 'would block')
        lim = n
        if self.net.short_read_p and n > 1 and Sim.current.net_rng.random() < self.net.short_read_p:
            lim = Sim.current.net_rng.randrange(1, n + 1)
        out = bytes(self.rbuf[:lim])
        del self.rbuf[:lim]
        return out

    def shutdown(self, how):
        pass

    def close(self):
        if not self.closed:
            self.closed = True
            sim = Sim.current
            self.closed_seq = sim.nlog
            self.closed_t = sim.vnow()
            self.closed_by = sim.running.name if sim.running is not None else 'ctrl'
            sim.rec('sock.close', 'fd=%d' % self.fd)
            for w in list(self.connect_waiters):
                sim.wake(w)
            if self.conn is not None:
                self.conn.client_close()
            self.net.on_client_close(self)


class SimSocketModule(object):
    """Stands in for the `socket` module behind Connection._socket_impl."""

    def __init__(self, net):
        self.net = net

    def socket(self, af=None, socktype=None, proto=0):
        return SimSocket(self.net)

    def __getattr__(self, name):
        return getattr(_socket, name)


class SimNet(object):
    def __init__(self, sim, lat=(0.0005, 0.005), chunk_mode='mixed', sndbuf=1 << 20,
                 partial_write_p=0.0, short_read_p=0.0, gap_p=0.2):
        self.sim = sim
        sim.fault_counter = self.count
        self.lat = lat
        self.chunk_mode = chunk_mode
        self.sndbuf = sndbuf
        self.partial_write_p = partial_write_p
        self.short_read_p = short_read_p
        self.gap_p = gap_p
        self.listeners = {}          # address -> acceptor (has .accept(conn) -> handler | None, .mode)
        self.socks = {}
        self.all_socks = []
        self.conns = []
        self.next_fd = 1000
        self.fault_counts = {}
        self.slow = {}               # address -> latency multiplier
        self.on_connect_hooks = []

    def count(self, kind, n=1):
        self.fault_counts[kind] = self.fault_counts.get(kind, 0) + n

    def module(self):
        return SimSocketModule(self)

    def listen(self, address, acceptor):
        self.listeners[address] = acceptor

    def latency(self, conn):
        lo, hi = self.lat
        l = lo + (hi - lo) * self.sim.net_rng.random()
        return l * self.slow.get(conn.addr[0], 1.0)

    def inter_chunk_gap(self):
        r = self.sim.net_rng
        if self.gap_p and r.random() < self.gap_p:
            return r.choice((0.0002, 0.001, 0.003))
        return 0.0

    def chunk(self, data, cuts=None):
        """Split data into chunks.  `cuts` (list of interesting offsets) biases the split points."""
        n = len(data)
        mode = self.chunk_mode
        r = self.sim.net_rng
        if mode == 'mixed':
            mode = r.choice(('whole', 'random', 'boundary', 'tiny'))
        if n <= 1 or mode == 'whole':
            return [data]
        if (mode == 'bytes1' and n <= 3000) or (mode == 'tiny' and n <= 64):
            self.count('one_byte_chunks')
            return [data[i:i + 1] for i in range(n)]
        if mode == 'bytes1':
            # long payload: single bytes for the first and last stretch, random cuts in between
            self.count('one_byte_chunks')
            head = [data[i:i + 1] for i in range(0, 40)]
            tail = [data[i:i + 1] for i in range(n - 12, n)]
            mid = data[40:n - 12]
            pts = sorted(set(r.randrange(1, len(mid)) for _ in range(r.randrange(1, 30))))
            pieces, prev = [], 0
            for p_ in pts:
                pieces.append(mid[prev:p_])
                prev = p_
            pieces.append(mid[prev:])
            return head + pieces + tail
        points = set()
        if mode in ('boundary', 'tiny') and cuts:
            for c in cuts:
                for d in (-1, 0, 1):
                    if 0 < c + d < n and r.random() < 0.5:
                        points.add(c + d)
        k = r.randrange(0, 6)
        for _ in range(k):
            points.add(r.randrange(1, n))
        if mode == 'tiny':
            # a run of single bytes somewhere
            s = r.randrange(0, n)
            for i in range(s, min(n, s + r.randrange(1, 24))):
                if 0 < i < n:
                    points.add(i)
        pts = sorted(points)
        out = []
        prev = 0
        for p in pts:
            out.append(data[prev:p])
            prev = p
        out.append(data[prev:])
        if len(out) > 1:
            self.count('split_delivery')
        return out

    # ---------------------------------------------------------------- connect
    def begin_connect(self, sock, sockaddr):
        sim = self.sim
        addr = (sockaddr[0], sockaddr[1])
        conn = Conn(self, sock, addr)
        sock.conn = conn
        sock.label = conn.label
        self.conns.append(conn)
        acc = self.listeners.get(addr[0])
        mode = 'refuse' if acc is None else acc.connect_mode(conn)
        for hk in self.on_connect_hooks:
            hk(conn, mode)
        lat = self.latency(conn)
        if mode == 'refuse':
            lat = lat * 5 + 0.01     # keeps no-backoff reconnect loops in the driver from burning the step budget

        def done():
            if sock.closed:
                return
            m = mode
            if m == 'accept' and acc.connect_mode(conn) != 'accept':
                m = acc.connect_mode(conn)      # node went down while SYN in flight
            if m == 'accept':
                conn.established = True
                sock.connected = True
                conn.handler = acc.accept(conn)
                sim.rec('net', 'established %s -> %s' % (conn.label, addr[0]))
            elif m == 'refuse':
                sock.err = errno.ECONNREFUSED
                self.count('connect_refused')
                sim.rec('net', 'refused %s -> %s' % (conn.label, addr[0]))
            else:                                # 'blackhole': SYN lost, connect times out
                self.count('connect_blackhole')
                sim.rec('net', 'syn-lost %s -> %s' % (conn.label, addr[0]))
                return
            for w in list(sock.connect_waiters):
                sim.wake(w)
            sock._notify()
        sim.at(lat, done, 'connect-done %s' % conn.label)

    def on_client_close(self, sock):
        pass

    def open_sockets(self):
        return [s for s in self.all_socks if not s.closed]
