"""./check selftest-determinism [ids...] [--seeds N]

For every property world: the same N run indices are executed
  A) all in ONE fresh interpreter, one after the other (worker count 1, batch mode),
  B) spread over 16 fresh interpreters (worker count 16, batch mode),
  C) a sample, one forked process per run (the mode used to confirm violations and to replay),
  D) spread over 16 fresh interpreters under a different PYTHONHASHSEED.
A, B and C must give identical event-log digests per index; a difference is a determinism failure (exit 1).
D differing only shows that pinning PYTHONHASHSEED=0 (done by ./check) is load-bearing for that world; it is reported, not failed.
"""
import json
import os
import subprocess
import sys
import time
from concurrent.futures import ThreadPoolExecutor

HERE = os.path.dirname(os.path.dirname(os.path.abspath(__file__)))


def digests_cmd(argv):
    """digests <Cnn> <start> <count> [fork]  - prints {index: digest} (child side of the self-test)."""
    from . import runner
    pid = argv[0].upper()
    start, count = int(argv[1]), int(argv[2])
    per_fork = len(argv) > 3 and argv[3] == 'fork'
    master = int(os.environ.get('VERIF_SEED', '1'))
    prop = runner.load_prop(pid)
    prop.prepare()
    out = {}
    for i in range(start, start + count):
        seed = runner.run_seed(master, pid, i)
        plan = prop.gen_plan(runner.plan_rng(seed), 'quick')
        if per_fork:
            res = runner.fork_run(prop, plan, seed, wall_cap=300)
        else:
            res = runner.execute(prop, plan, seed)
        out[i] = '%s/%s' % (res.get('status'), res.get('digest'))
    sys.stdout.write('DIGESTS ' + json.dumps(out) + '\n')
    return 0


def _child(pid, start, count, hashseed='0', fork=False):
    env = dict(os.environ, PYTHONHASHSEED=hashseed, VERIF_HASHSEED=hashseed,
               PYTHONPATH='%s:%s' % (HERE, os.environ.get('VERIF_REPO', '/repo')))
    cmd = [sys.executable, '-m', 'dsim.cli', 'digests', pid, str(start), str(count)] + (['fork'] if fork else [])
    p = subprocess.run(cmd, env=env, cwd=HERE, stdout=subprocess.PIPE, stderr=subprocess.DEVNULL, timeout=3600)
    for line in p.stdout.decode().splitlines():
        if line.startswith('DIGESTS '):
            return dict((int(k), v) for k, v in json.loads(line[8:]).items())
    return {}


def determinism(argv):
    n = 200
    ids = []
    it = iter(argv)
    for a in it:
        if a == '--seeds':
            n = int(next(it))
        else:
            ids.append(a.upper())
    if not ids:
        ids = sorted('C' + f[1:3] for f in os.listdir(os.path.join(HERE, 'props')) if f[0] == 'c' and f[1:3].isdigit() and f.endswith('.py'))
    t0 = time.time()
    report = {}
    bad = 0
    pool = ThreadPoolExecutor(16)
    futs = {}
    for pid in ids:
        chunk = max(1, n // 16)
        futs[pid] = {
            'A': [pool.submit(_child, pid, 0, n)],
            'B': [pool.submit(_child, pid, s, min(chunk, n - s)) for s in range(0, n, chunk)],
            'C': [pool.submit(_child, pid, 0, min(12, n), '0', True)],
            'D': [pool.submit(_child, pid, s, min(chunk, n - s), '4242') for s in range(0, n, chunk)],
        }
    for pid in ids:
        res = {}
        for k, fs in futs[pid].items():
            d = {}
            for f in fs:
                try:
                    d.update(f.result())
                except Exception as e:
                    d['error'] = repr(e)
            res[k] = d
        a, b, c, d = res['A'], res['B'], res['C'], res['D']
        miss = [i for i in range(n) if i not in a or i not in b]
        diff_ab = [i for i in range(n) if i in a and i in b and a[i] != b[i]]
        diff_ac = [i for i in c if isinstance(i, int) and i in a and a[i] != c[i]]
        diff_ad = [i for i in range(n) if i in a and i in d and a[i] != d[i]]
        harness = [i for i in a if isinstance(i, int) and not str(a[i]).startswith('ok/')]
        ok = not miss and not diff_ab and not diff_ac
        if not ok:
            bad += 1
        report[pid] = {'seeds': n, 'one_process_vs_16_processes_mismatches': diff_ab[:10], 'batch_vs_fork_per_run_mismatches': diff_ac[:10],
                       'fork_per_run_sample': len([i for i in c if isinstance(i, int)]), 'missing': miss[:10], 'non_ok_runs': harness[:10],
                       'other_hashseed_mismatches': len(diff_ad), 'hashseed_pin_load_bearing': bool(diff_ad)}
        print('%s %s: %d seeds x (1 process | 16 processes | fork-per-run sample %d): mismatches %d/%d, missing %d; other PYTHONHASHSEED: %d differ%s'
              % ('ok  ' if ok else 'FAIL', pid, n, report[pid]['fork_per_run_sample'], len(diff_ab), len(diff_ac), len(miss), len(diff_ad),
                 ' (pin is load-bearing)' if diff_ad else ''))
        sys.stdout.flush()
    os.makedirs(os.path.join(HERE, 'evidence'), exist_ok=True)
    path = os.path.join(HERE, 'evidence', 'selftest-determinism.json')
    try:
        worlds = json.load(open(path)).get('worlds', {})
    except Exception:
        worlds = {}
    worlds.update(report)            # a partial invocation refreshes only the worlds it ran
    json.dump({'last_invocation_wall_s': round(time.time() - t0, 1), 'worlds': worlds}, open(path, 'w'), indent=1, sort_keys=True)
    print('selftest-determinism: %d worlds, %d failing, %.0f s' % (len(ids), bad, time.time() - t0))
    return 1 if bad else 0
