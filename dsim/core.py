"""dsim core: baton scheduler over real OS threads, virtual time, sim primitives.

Exactly one sim-thread (or the controller) runs at any instant.  Every scheduling
decision is an integer drawn through Sim.choose(); the list of draws is the schedule
and can be fed back for replay.  Nothing in here reads a real clock or id().
"""
import _thread
import threading
import heapq
import random
import hashlib
import sys
import traceback

NEW, RUNNABLE, BLOCKED, DONE = 'new', 'runnable', 'blocked', 'done'

T0 = 1000000.0   # virtual epoch of every run


class Deadlock(Exception):
    pass


class StepCap(Exception):
    pass


class SpinLoop(Exception):
    pass


class HarnessError(Exception):
    pass


class _Abort(BaseException):
    """Raised inside sim-threads when the run is torn down."""


def _mix(seed, tag):
    h = hashlib.sha256(('%d/%s' % (seed, tag)).encode()).digest()
    return int.from_bytes(h[:8], 'big')


class Sim(object):
    current = None

    def __init__(self, seed, strategy=None, step_cap=300000, horizon=600.0, choices=None,
                 log_picks=True):
        Sim.current = self
        self.seed = seed
        self.sched_rng = random.Random(_mix(seed, 'sched'))
        self.driver_rng = random.Random(_mix(seed, 'driver'))
        self.net_rng = random.Random(_mix(seed, 'net'))
        self.line_rng = random.Random(_mix(seed, 'line'))
        self.now = T0
        self.threads = []
        self.running = None
        self.ctrl = _thread.allocate_lock()
        self.ctrl.acquire()
        self.seq = 0
        self.events = []             # heap of (time, seq, fn, what)
        self.log = []
        self.h = hashlib.sha256()
        self.nlog = 0
        self.keep_log = 4000         # tail kept for replay files
        self.strategy = strategy or {'kind': 'uniform'}
        self.step_cap = step_cap
        self.horizon = T0 + horizon
        self.steps = 0
        self.labels = {}
        self.failure = None
        self.crashes = []            # (thread name, repr(exc), traceback)
        self.replay_choices = list(choices) if choices is not None else None
        self.replay_pos = 0
        self.replay_diverged = False
        self.choices = []
        self.last = None
        self.monitors = []           # callables run by the controller after every step
        self.probes = {}
        self.line_p = 0.0
        self.line_points = None
        self.line_count = 0
        self.preemptions = 0
        self.line_stall = None       # (probability at a pre-emption point, max seconds): stall the thread there instead of yielding
        self.stalls = 0
        self.stalls_armed = True
        self.spin_cap = 0
        self._spin_only = set()
        self._spin_step = -1
        self._spin_lines = 0
        self.deep_stalls = None      # {function name: [[line offset, seconds, hits left], ...]}
        self.focus_stall = None      # (function name(s), probability per line, max seconds[, line offset in the function, max hits])
        self.focus_hits = 0
        self.stall_log = []          # (virtual start, duration, thread name) of every injected thread stall
        self.fault_counter = None    # SimNet.count, so that scheduler-level faults are reported with the network ones
        self.log_picks = log_picks
        self._prio = {}
        self._pct_points = None
        self._same_run = 0
        self._last_now = None
        self._steps_at_now = 0
        self.spin_limit = 4000
        self.time_jump_p = 0.0
        self.max_jump = 0.05
        self.aborting = False
        self.dead = False
        self._line_codes = []

    # ---------------------------------------------------------------- log
    def rec(self, kind, detail=''):
        actor = self.running.name if self.running is not None else 'ctrl'
        e = (self.nlog, round(self.now - T0, 6), actor, kind, detail)
        self.nlog += 1
        self.h.update(repr(e).encode())
        self.log.append(e)
        if len(self.log) > 2 * self.keep_log:
            del self.log[:self.keep_log]

    def probe(self, name, n=1):
        self.probes[name] = self.probes.get(name, 0) + n

    def label(self, prefix):
        n = self.labels.get(prefix, 0) + 1
        self.labels[prefix] = n
        return '%s#%d' % (prefix, n)

    def digest(self):
        return self.h.hexdigest()[:20]

    def vnow(self):
        return self.now - T0

    # ---------------------------------------------------------------- draws
    def choose(self, n, rng_pick=None):
        """One recorded scheduling draw in range(n)."""
        if n <= 1:
            return 0
        if self.replay_choices is not None:
            if self.replay_pos < len(self.replay_choices):
                c = self.replay_choices[self.replay_pos]
                self.replay_pos += 1
                if c >= n:
                    self.replay_diverged = True
                    c = 0
            else:
                c = 0
        else:
            c = rng_pick() if rng_pick is not None else self.sched_rng.randrange(n)
        self.choices.append(c)
        return c

    # ---------------------------------------------------------------- env events
    def at(self, delay, fn, what=''):
        self.seq += 1
        heapq.heappush(self.events, (self.now + max(delay, 0.0), self.seq, fn, what))

    def at_abs(self, t, fn, what=''):
        self.seq += 1
        heapq.heappush(self.events, (max(t, self.now), self.seq, fn, what))

    # ---------------------------------------------------------------- thread side
    def me(self):
        t = self.running
        if t is None or t.real_ident != _thread.get_ident():
            raise HarnessError("sim primitive used from a thread that does not hold the baton")
        return t

    def in_sim_thread(self):
        t = self.running
        return t is not None and t.real_ident == _thread.get_ident()

    def _park(self):
        t = self.running
        self.running = None
        self.ctrl.release()
        t.baton.acquire()
        self.running = t
        if self.aborting:
            raise _Abort()

    def yield_(self, why=''):
        if self.running is None:
            return
        t = self.me()
        t.state = RUNNABLE
        t.why = why
        self._park()

    def block(self, waitset, timeout=None, why=''):
        """Block the current sim-thread.  True if woken, False on timeout."""
        t = self.me()
        t.state = BLOCKED
        t.woken = False
        t.waitset = waitset
        # a zero/negative timed wait still costs a microsecond of virtual time, so that loops polling
        # the clock around timed waits make progress (they would on a real clock)
        t.deadline = None if timeout is None else self.now + max(timeout, 1e-6)
        t.why = why
        waitset.append(t)
        self._park()
        return t.woken

    def wake(self, t):
        if t.state == BLOCKED:
            t.state = RUNNABLE
            t.woken = True
            ws = t.waitset
            if ws is not None and t in ws:
                ws.remove(t)
            t.waitset = None
            t.deadline = None

    # ---------------------------------------------------------------- controller
    def _strategy_pick(self, cands, n):
        st = self.strategy
        kind = st.get('kind', 'uniform')
        rng = self.sched_rng
        if kind == 'sticky':
            # candidate 0 is the thread that ran last if it is still runnable
            if cands and cands[0] is self.last and rng.random() < st.get('p', 0.9):
                return 0
            return rng.randrange(n)
        if kind == 'pct':
            if self._pct_points is None:
                k = st.get('d', 3)
                est = st.get('est', 2000)
                self._pct_points = set(rng.randrange(1, est) for _ in range(k))
            if self.last is not None and (self.steps in self._pct_points or self._same_run > 150):
                # change point (or fairness: a thread spinning at top priority must not starve the rest,
                # a real scheduler would run the others in parallel)
                self._prio[self.last.name] = -self.steps
                self._same_run = 0
            best, bi = None, 0
            for i in range(n):
                nm = cands[i].name if i < len(cands) else '~env'
                p = self._prio.get(nm)
                if p is None:
                    p = self._prio[nm] = rng.random()
                if best is None or p > best:
                    best, bi = p, i
            return bi
        return rng.randrange(n)

    def run(self, until=None):
        """Run until `until()` is true (checked between steps), quiescence or the horizon."""
        while True:
            if until is not None and until():
                return 'done'
            self.steps += 1
            if self.steps > self.step_cap:
                raise StepCap('step cap %d reached' % self.step_cap)
            now = self.now
            cands = []
            next_deadline = None
            for t in self.threads:
                st = t.state
                if st == BLOCKED:
                    d = t.deadline
                    if d is not None:
                        if d <= now:
                            ws = t.waitset
                            if ws is not None and t in ws:
                                ws.remove(t)
                            t.waitset = None
                            t.deadline = None
                            t.woken = False
                            t.state = RUNNABLE
                            cands.append(t)
                        elif next_deadline is None or d < next_deadline:
                            next_deadline = d
                elif st == RUNNABLE:
                    cands.append(t)
            ev = self.events
            due = bool(ev) and ev[0][0] <= now
            if not cands and not due:
                nxt = next_deadline
                if ev and (nxt is None or ev[0][0] < nxt):
                    nxt = ev[0][0]
                if nxt is None:
                    live = [t for t in self.threads if t.state not in (DONE, NEW) and not t.daemon]
                    if live:
                        raise Deadlock(', '.join('%s:%s' % (t.name, t.why) for t in live))
                    return 'quiescent'
                if nxt > self.horizon:
                    self.now = self.horizon
                    return 'horizon'
                self.now = nxt
                continue
            # busy-wait guard: code that polls the clock in a loop without ever blocking would freeze virtual
            # time; after many steps at one instant let the clock move to the next pending event/deadline
            # (computation takes time on a real machine)
            if now == self._last_now:
                self._steps_at_now += 1
                if self._steps_at_now > self.spin_limit and not due:
                    nxt = next_deadline
                    if ev and (nxt is None or ev[0][0] < nxt):
                        nxt = ev[0][0]
                    if nxt is None or nxt - now > 0.05:
                        nxt = now + 0.05          # nothing scheduled soon: a quantum of CPU time passes
                    if nxt <= self.horizon:
                        self.now = nxt
                        self._steps_at_now = 0
                        self.probe('busy_wait_time_advance')
                        self.rec('spin-advance', '')
                        continue
            else:
                self._last_now = now
                self._steps_at_now = 0
            # canonical candidate order: last-run thread first, then creation order, env last
            last = self.last
            if last is not None and last in cands and cands[0] is not last:
                cands.remove(last)
                cands.insert(0, last)
            n = len(cands) + (1 if due else 0)
            jump = False
            if (not due) and self.time_jump_p and ev and ev[0][0] - now <= self.max_jump:
                # optionally let virtual time pass although threads are runnable (a slow CPU)
                n += 1
                jump = True
            if jump:
                pick = self.choose(n, lambda: (n - 1) if self.sched_rng.random() < self.time_jump_p
                                   else self._strategy_pick(cands, n - 1))
            else:
                pick = self.choose(n, lambda: self._strategy_pick(cands, n))
            if pick < len(cands):
                t = cands[pick]
                if t is self.last and n > 1:
                    self._same_run += 1
                else:
                    self._same_run = 0
                if self.log_picks:
                    self.rec('pick', t.name)
                self.last = t
                self.running = t
                t.baton.release()
                self.ctrl.acquire()
                if self.failure is not None:
                    raise self.failure
            elif due:
                e = heapq.heappop(ev)
                self.rec('env', e[3])
                e[2]()
            else:
                # a "slow CPU" step: let the next network event become due although threads are runnable
                nxt = ev[0][0]
                if next_deadline is None or nxt <= next_deadline:
                    self.now = nxt
                    self.rec('timejump', '')
            for m in self.monitors:
                m()

    def teardown(self):
        """End of run: unwind every parked sim-thread with _Abort so its OS thread returns to the
        pool, then mark the sim dead (primitives become no-ops for late finalizers)."""
        self.aborting = True
        leaked = 0
        for t in list(self.threads):
            n = 0
            while t.state != DONE and n < 2000:
                n += 1
                self.running = t
                t.baton.release()
                self.ctrl.acquire()
            if t.state != DONE:
                leaked += 1
        self.running = None
        self.dead = True
        self.events = []
        if self._line_codes:
            mon = sys.monitoring
            for code in self._line_codes:
                mon.set_local_events(mon.DEBUGGER_ID, code, 0)
            mon.register_callback(mon.DEBUGGER_ID, mon.events.LINE, None)
            self._line_codes = []
        return leaked

    # ---------------------------------------------------------------- line pre-emption
    def enable_line_preemption(self, funcs, p=0.0, points=0, est_lines=2000):
        """Make every LINE event in the given functions a potential park point."""
        mon = sys.monitoring
        tool = mon.DEBUGGER_ID
        if mon.get_tool(tool) is None:
            mon.use_tool_id(tool, 'dsim')
        self.line_p = p
        self.line_points = set(self.line_rng.randrange(1, max(est_lines, 2)) for _ in range(points))
        mon.register_callback(tool, mon.events.LINE, self._on_line)
        for f in funcs:
            # a decorated function (functools.wraps, e.g. cluster.run_in_executor) is followed to the body it wraps
            chain = [f]
            while hasattr(chain[-1], '__wrapped__') and len(chain) < 5:
                chain.append(chain[-1].__wrapped__)
            for g in chain:
                code = g if type(g).__name__ == 'code' else getattr(g, '__code__', None)
                if code is None and hasattr(g, '__func__'):
                    code = g.__func__.__code__
                if code is None or code in self._line_codes:
                    continue
                mon.set_local_events(tool, code, mon.events.LINE)
                self._line_codes.append(code)

    def watch_spin(self, funcs, cap=400000):
        """Line events in these functions only feed a spin guard: a thread that executes `cap` of their lines without the simulation
        taking a single step in between is in a loop that can never end (nothing else runs meanwhile); SpinLoop is raised in it."""
        mon = sys.monitoring
        tool = mon.DEBUGGER_ID
        if mon.get_tool(tool) is None:
            mon.use_tool_id(tool, 'dsim')
        mon.register_callback(tool, mon.events.LINE, self._on_line)
        self.spin_cap = cap
        for f in funcs:
            while hasattr(f, '__wrapped__'):
                f = f.__wrapped__
            code = getattr(f, '__code__', None)
            if code is None or code in self._line_codes:
                continue
            mon.set_local_events(tool, code, mon.events.LINE)
            self._line_codes.append(code)
            self._spin_only.add(code)

    def _on_line(self, code, lineno):
        t = self.running
        if t is None or t.real_ident != _thread.get_ident():
            return
        if self.spin_cap:
            if self.steps != self._spin_step:
                self._spin_step = self.steps
                self._spin_lines = 0
            else:
                self._spin_lines += 1
                if self._spin_lines > self.spin_cap:
                    self._spin_lines = 0
                    raise SpinLoop('%s executed %d lines of %s (line %d) without the simulation taking a step' % (t.name, self.spin_cap, code.co_name, lineno))
            if code in self._spin_only:
                return
        if t.no_preempt:
            return
        self.line_count += 1
        if not self.stalls_armed:
            # (worlds hold thread stalls back until their set-up phase - the initial connect - is over)
            ds = fs = None
        else:
            ds = self.deep_stalls
            fs = self.focus_stall
        if ds:
            lst = ds.get(code.co_name)
            if lst:
                rel = lineno - code.co_firstlineno
                for e in lst:
                    if e[0] == rel and e[2] > 0:
                        # deep change points: a thread reaching this line of this function sits there for e[1] seconds (the first
                        # e[2] times); several points in different functions may be planted in one run
                        e[2] -= 1
                        self.focus_hits += 1
                        self.stall_log.append((self.now - T0, e[1], t.name))
                        self.stalls += 1
                        self.preemptions += 1
                        self.rec('fault', 'thread stall %s at %s+%d %.4fs' % (t.name, code.co_name, rel, e[1]))
                        if self.fault_counter is not None:
                            self.fault_counter('thread_stall')
                        self.block([], e[1], 'line-stall')
                        return
        if fs and (code.co_name == fs[0] or (type(fs[0]) is not str and code.co_name in fs[0])) and \
                (len(fs) < 4 or (lineno - code.co_firstlineno == fs[3] and self.focus_hits < fs[4])) and self.line_rng.random() < fs[1]:
            # focused stall: this run singles out one function; a thread executing it is descheduled at some of its lines
            # (or, 5-element form, at one given line of it, for the whole duration, the first few times it gets there)
            d = fs[2] * (self.line_rng.choice((0.1, 0.3, 1.0)) if len(fs) < 4 else 1.0)
            self.focus_hits += 1         # workloads may bind an action to this moment ("shut down while _replace is between two lines")
            self.stall_log.append((self.now - T0, d, t.name))
            self.stalls += 1
            self.preemptions += 1
            self.rec('fault', 'thread stall %s in %s %.4fs' % (t.name, fs[0], d))
            if self.fault_counter is not None:
                self.fault_counter('thread_stall')
            self.block([], d, 'line-stall')
            return
        hit = self.line_count in self.line_points
        if not hit and self.line_p:
            hit = self.line_rng.random() < self.line_p
        if hit:
            self.preemptions += 1
            st = self.line_stall if self.stalls_armed else None
            if st and self.line_rng.random() < st[0]:
                # fault: the thread is descheduled at this line for a while (slow CPU, GC pause, page fault) - virtual time
                # passes, responses arrive and timers fire while it sits between two lines, possibly holding locks
                d = st[1] * self.line_rng.choice((0.01, 0.1, 0.3, 1.0))
                self.stall_log.append((self.now - T0, d, t.name))
                self.stalls += 1
                self.rec('fault', 'thread stall %s %.4fs' % (t.name, d))
                if self.fault_counter is not None:
                    self.fault_counter('thread_stall')
                self.block([], d, 'line-stall')
                return
            t.state = RUNNABLE
            t.why = 'line'
            self._park()


class _OSWorker(object):
    """A reusable real OS thread (thread creation is expensive under parallel load here)."""
    pool = []

    def __init__(self):
        self.lock = _thread.allocate_lock()
        self.lock.acquire()
        self.task = None
        t = threading.Thread(target=self.loop, daemon=True)
        t.start()

    def loop(self):
        while True:
            self.lock.acquire()
            task, self.task = self.task, None
            try:
                task()
            except BaseException:
                pass
            _OSWorker.pool.append(self)

    @classmethod
    def run(cls, task):
        try:
            w = cls.pool.pop()
        except IndexError:
            w = cls()
        w.task = task
        w.lock.release()


import os as _os
_os.register_at_fork(after_in_child=lambda: _OSWorker.pool.clear())


class SimThread(object):
    """threading.Thread API on a parked real thread."""

    def __init__(self, group=None, target=None, name=None, args=(), kwargs=None, daemon=None):
        sim = Sim.current
        self._sim = sim
        self._target = target
        self._args = args
        self._kwargs = kwargs or {}
        self.name = sim.label(name or 'Thread')
        self.daemon = bool(daemon)
        self.state = NEW
        self.baton = _thread.allocate_lock()
        self.baton.acquire()
        self.deadline = None
        self.waitset = None
        self.woken = False
        self.why = ''
        self.real_ident = None
        self._joiners = []
        self._started = False
        self.no_preempt = False
        self.tb = None

    @property
    def ident(self):
        return self.real_ident

    def start(self):
        sim = Sim.current
        if not hasattr(self, 'baton'):
            SimThread.__init__(self, name=getattr(self, 'name', None))
        if self._started:
            raise RuntimeError("threads can only be started once")
        self._started = True
        ready = _thread.allocate_lock()
        ready.acquire()
        self._ready = ready
        _OSWorker.run(self._bootstrap)
        ready.acquire()
        self.state = RUNNABLE
        sim.threads.append(self)
        sim.rec('thread.start', self.name)
        sim.yield_('thread.start')

    def _bootstrap(self):
        self.real_ident = _thread.get_ident()
        self._ready.release()
        self.baton.acquire()
        sim = self._sim
        sim.running = self
        try:
            if sim.aborting:
                return
            self.run()
        except _Abort:
            pass
        except BaseException as e:
            self.tb = traceback.format_exc()
            sim.rec('thread.exc', '%s %s' % (self.name, type(e).__name__))
            sim.crashes.append((self.name, repr(e), self.tb))
            if isinstance(e, HarnessError):
                sim.failure = e
        finally:
            self.state = DONE
            for j in list(self._joiners):
                sim.wake(j)
            if not sim.aborting:
                sim.rec('thread.exit', self.name)
            sim.running = None
            sim.ctrl.release()

    def run(self):
        if self._target:
            self._target(*self._args, **self._kwargs)

    def join(self, timeout=None):
        sim = Sim.current
        sim.yield_('join')
        if self.state != DONE and self._started:
            sim.block(self._joiners, timeout, 'join ' + self.name)

    def is_alive(self):
        return self._started and self.state != DONE

    isAlive = is_alive

    def setDaemon(self, d):
        self.daemon = bool(d)

    def getName(self):
        return self.name


def current_thread():
    sim = Sim.current
    return sim.running if sim is not None and sim.running is not None else threading.current_thread()


class SimLock(object):
    def __init__(self):
        self._sim = Sim.current
        self.owner = None
        self.waiters = []

    def acquire(self, blocking=True, timeout=-1):
        sim = self._sim
        if sim.dead:
            return True
        if sim.running is None:
            if self.owner is not None:
                raise HarnessError('controller would block on a lock')
            self.owner = 'ctrl'
            return True
        sim.yield_('acquire')
        me = sim.me()
        end = None if timeout is None or timeout < 0 else sim.now + timeout
        while self.owner is not None:
            if not blocking:
                return False
            rem = None if end is None else end - sim.now
            if rem is not None and rem <= 0:
                return False
            sim.block(self.waiters, rem, 'lock')
        self.owner = me
        return True

    def release(self):
        sim = self._sim
        if sim.dead:
            return
        if self.owner is None:
            raise RuntimeError('release unlocked lock')
        self.owner = None
        for w in list(self.waiters):
            sim.wake(w)
        sim.yield_('release')

    def locked(self):
        return self.owner is not None

    __enter__ = acquire

    def __exit__(self, *a):
        self.release()


class SimRLock(object):
    def __init__(self):
        self._sim = Sim.current
        self.owner = None
        self.count = 0
        self.waiters = []

    def _me(self):
        r = self._sim.running
        return r if r is not None else 'ctrl'

    def acquire(self, blocking=True, timeout=-1):
        sim = self._sim
        if sim.dead:
            return True
        me = self._me()
        if self.owner is me:
            self.count += 1
            return True
        if me == 'ctrl':
            if self.owner is not None:
                raise HarnessError('controller would block on an rlock')
            self.owner = me
            self.count = 1
            return True
        sim.yield_('acquire')
        end = None if timeout is None or timeout < 0 else sim.now + timeout
        while self.owner is not None:
            if not blocking:
                return False
            rem = None if end is None else end - sim.now
            if rem is not None and rem <= 0:
                return False
            sim.block(self.waiters, rem, 'rlock')
        self.owner = me
        self.count = 1
        return True

    def release(self):
        if self._sim.dead:
            return
        if self.owner is not self._me():
            raise RuntimeError("cannot release un-acquired lock")
        self.count -= 1
        if self.count == 0:
            self.owner = None
            for w in list(self.waiters):
                self._sim.wake(w)
            self._sim.yield_('release')

    __enter__ = acquire

    def __exit__(self, *a):
        self.release()

    def _release_save(self):
        c = self.count
        self.count = 0
        self.owner = None
        for w in list(self.waiters):
            self._sim.wake(w)
        return c

    def _acquire_restore(self, c):
        sim = self._sim
        me = self._me()
        while self.owner is not None:
            sim.block(self.waiters, None, 'rlock-restore')
        self.owner = me
        self.count = c

    def _is_owned(self):
        return self.owner is self._me()


class SimCondition(object):
    def __init__(self, lock=None):
        self._sim = Sim.current
        self._lock = lock if lock is not None else SimRLock()
        self.acquire = self._lock.acquire
        self.release = self._lock.release
        self.waiters = []

    def __enter__(self):
        return self._lock.__enter__()

    def __exit__(self, *a):
        return self._lock.__exit__(*a)

    def wait(self, timeout=None):
        sim = self._sim
        if sim.dead:
            return False
        lk = self._lock
        if isinstance(lk, SimRLock):
            if not lk._is_owned():
                raise RuntimeError("cannot wait on un-acquired lock")
            saved = lk._release_save()
        else:
            if lk.owner is not sim.me():
                raise RuntimeError("cannot wait on un-acquired lock")
            lk.owner = None
            for w in list(lk.waiters):
                sim.wake(w)
            saved = None
        got = sim.block(self.waiters, timeout, 'cond')
        if isinstance(lk, SimRLock):
            lk._acquire_restore(saved)
        else:
            while lk.owner is not None:
                sim.block(lk.waiters, None, 'cond-reacquire')
            lk.owner = sim.me()
        return got

    def wait_for(self, predicate, timeout=None):
        sim = self._sim
        end = None if timeout is None else sim.now + timeout
        r = predicate()
        while not r:
            rem = None if end is None else end - sim.now
            if rem is not None and rem <= 0:
                break
            self.wait(rem)
            r = predicate()
        return r

    def notify(self, n=1):
        if self._sim.dead:
            return
        for w in list(self.waiters)[:n]:
            self._sim.wake(w)
        self._sim.yield_('notify')

    def notify_all(self):
        self.notify(len(self.waiters))

    notifyAll = notify_all


class SimEvent(object):
    def __init__(self):
        self._sim = Sim.current
        self.flag = False
        self.waiters = []

    def is_set(self):
        return self.flag

    isSet = is_set

    def set(self):
        self.flag = True
        if self._sim.dead:
            return
        for w in list(self.waiters):
            self._sim.wake(w)
        self._sim.yield_('event.set')

    def clear(self):
        self.flag = False

    def wait(self, timeout=None):
        sim = self._sim
        if sim.running is None or sim.dead:
            return self.flag
        sim.yield_('event.wait')
        if not self.flag:
            sim.block(self.waiters, timeout, 'event')
        return self.flag


class SimTime(object):
    """Stands in for the `time` module inside driver modules."""

    def __init__(self):
        import time as _t
        self._real = _t

    def time(self):
        return Sim.current.now

    monotonic = time
    perf_counter = time

    def sleep(self, d):
        sim = Sim.current
        if sim.running is None:
            return
        sim.block([], d, 'sleep')

    def __getattr__(self, name):
        return getattr(self._real, name)


# ---------------------------------------------------------------- queue module stand-in
class Empty(Exception):
    pass


class Full(Exception):
    pass


class SimQueue(object):
    def __init__(self, maxsize=0):
        self._cond = SimCondition(SimLock())
        self._items = []
        self.maxsize = maxsize

    def _put(self, item):
        self._items.append(item)

    def _get(self):
        return self._items.pop(0)

    def qsize(self):
        return len(self._items)

    def empty(self):
        return not self._items

    def put(self, item, block=True, timeout=None):
        with self._cond:
            self._put(item)
            self._cond.notify()

    put_nowait = put

    def get(self, block=True, timeout=None):
        sim = Sim.current
        with self._cond:
            if not self._items:
                if not block:
                    raise Empty()
                end = None if timeout is None else sim.now + timeout
                while not self._items:
                    rem = None if end is None else end - sim.now
                    if rem is not None and rem <= 0:
                        raise Empty()
                    self._cond.wait(rem)
            return self._get()

    def get_nowait(self):
        return self.get(False)


class SimPriorityQueue(SimQueue):
    def _put(self, item):
        heapq.heappush(self._items, item)

    def _get(self):
        return heapq.heappop(self._items)


class SimQueueModule(object):
    Empty = Empty
    Full = Full
    Queue = SimQueue
    PriorityQueue = SimPriorityQueue
