"""Simulated cassandra.io.libevwrapper: the C binding's surface on top of the sim scheduler.

Semantics follow libev / libevwrapper.c: IO callbacks cb(watcher, revents[, errno]); Prepare
cb(watcher); Timer cb() with ev_timer_again (repeating) semantics; Async only wakes the loop;
Loop.start() is ev_run: returns when no referenced active watcher remains.
"""
import sys
import types

from .core import Sim

EV_READ = 0x01
EV_WRITE = 0x02
EV_ERROR = 0x80000000

_net = [None]       # the SimNet whose fds the IO watchers resolve


def set_net(net):
    _net[0] = net


class Loop(object):
    def __init__(self):
        self.io = []
        self.asyncs = []
        self.prepares = []
        self.timers = []
        self.unrefs = 0
        self.sleepers = []
        self.label = Sim.current.label('evloop')
        self.iterations = 0

    def unref(self):
        self.unrefs += 1

    def _active_refs(self):
        n = 0
        for ws in (self.io, self.asyncs, self.prepares, self.timers):
            for w in ws:
                if w.active:
                    n += 1
        return n - self.unrefs

    def wakeup(self):
        sim = Sim.current
        for t in list(self.sleepers):
            sim.wake(t)

    def start(self):
        sim = Sim.current
        while True:
            self.iterations += 1
            for p in list(self.prepares):
                if p.active:
                    p.callback(p)
            if self._active_refs() <= 0:
                return
            pending = []
            for w in self.io:
                if w.active:
                    rev = w.ready()
                    if rev:
                        pending.append((0, w, rev))
            for a in self.asyncs:
                if a.active and a.sent:
                    a.sent = False
                    pending.append((1, a, 0))
            for tm in self.timers:
                if tm.active and tm.at <= sim.now:
                    pending.append((2, tm, 0))
            if not pending:
                dl = [tm.at for tm in self.timers if tm.active]
                timeout = (min(dl) - sim.now) if dl else None
                sim.block(self.sleepers, timeout, 'libev.poll')
                continue
            if len(pending) > 1:
                sim.net_rng.shuffle(pending)
            for kind, w, rev in pending:
                if kind == 0:
                    if w.active:
                        w.callback(w, rev)
                elif kind == 2:
                    if w.active:
                        # ev_timer_again semantics: the watcher keeps repeating with its last interval until it
                        # is restarted or stopped.  LibevLoop never stops it when its TimerManager runs empty, so
                        # after an (almost) overdue timer the real loop re-fires every nanosecond and spins.  The
                        # idle re-fire is coarsened to 5 ms here: observationally the same (the callback only
                        # services an empty queue; _update_timer restarts the watcher whenever a timer exists).
                        if w.repeat < 0.005:
                            sim.probe('libev_timer_idle_spin')
                        w.at = sim.now + max(w.repeat, 0.005)
                        w.callback()
            sim.yield_('libev.iter')


class IO(object):
    def __init__(self, fd, events, loop, callback):
        self.sock = _net[0].socks[fd]
        self.events = events
        self.loop = loop
        self.callback = callback
        self.active = False
        loop.io.append(self)
        self.sock.listeners.append(loop.wakeup)

    def start(self):
        self.active = True
        self.loop.wakeup()

    def stop(self):
        self.active = False
        if self in self.loop.io and (self.sock.closed):
            self.loop.io.remove(self)

    def is_active(self):
        return self.active

    def is_pending(self):
        return False

    def ready(self):
        s = self.sock
        if s.closed:
            # libev on a closed fd: epoll would simply never report it
            return 0
        if self.events & EV_READ and s.readable():
            return EV_READ
        if self.events & EV_WRITE and s.writable():
            return EV_WRITE
        return 0


class Async(object):
    def __init__(self, loop):
        self.loop = loop
        self.active = False
        self.sent = False
        loop.asyncs.append(self)

    def start(self):
        self.active = True

    def send(self):
        self.sent = True
        self.loop.wakeup()
        Sim.current.yield_('async.send')


class Prepare(object):
    def __init__(self, loop, callback):
        self.loop = loop
        self.callback = callback
        self.active = False
        loop.prepares.append(self)

    def start(self):
        self.active = True

    def stop(self):
        self.active = False


class Timer(object):
    def __init__(self, loop, callback):
        self.loop = loop
        self.callback = callback
        self.active = False
        self.at = None
        self.repeat = None
        loop.timers.append(self)

    def start(self, timeout):
        self.repeat = max(timeout, 1e-9)
        self.at = Sim.current.now + self.repeat
        self.active = True
        self.loop.wakeup()

    def stop(self):
        self.active = False


def install():
    m = sys.modules.get('cassandra.io.libevwrapper')
    if m is not None and getattr(m, '_dsim', False):
        return m
    m = types.ModuleType('cassandra.io.libevwrapper')
    m._dsim = True
    for k in ('Loop', 'IO', 'Async', 'Prepare', 'Timer', 'EV_READ', 'EV_WRITE', 'EV_ERROR'):
        setattr(m, k, globals()[k])
    sys.modules['cassandra.io.libevwrapper'] = m
    return m
