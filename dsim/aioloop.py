"""A virtual-time asyncio event loop that runs inside a sim thread.

BaseEventLoop does the scheduling of callbacks, tasks and timers (real asyncio code); what is replaced is the selector: `select(timeout)`
parks the loop's sim thread until another thread calls `call_soon_threadsafe` (which ends in `_write_to_self`), a sim-socket readiness
listener fires, or the virtual clock reaches the next timer.  Socket coroutines are implemented over the simulated sockets' non-blocking
send/recv (EAGAIN, partial writes)."""
import asyncio
import errno

from dsim.core import Sim


class _Selector(object):
    def __init__(self, loop):
        self.loop = loop

    def select(self, timeout):
        sim = Sim.current
        if timeout is None or timeout > 0:
            if not self.loop._ready:
                sim.block(self.loop._sleepers, timeout, 'asyncio.select')
        else:
            sim.yield_('asyncio.iter')
        return []

    def close(self):
        pass


class SimLoop(asyncio.BaseEventLoop):
    # fault hook: callable(sock, nbytes) -> exception instance to raise from this send attempt, or None
    send_fault = None

    def __init__(self):
        super().__init__()
        self._sleepers = []
        self._selector = _Selector(self)
        self._clock_resolution = 1e-9
        self.slow_callback_duration = 1e9

    def time(self):
        return Sim.current.now

    def _write_to_self(self):
        sim = Sim.current
        for t in list(self._sleepers):
            sim.wake(t)

    def _process_events(self, events):
        pass

    def remove_reader(self, fd):
        return False

    def remove_writer(self, fd):
        return False

    def _wait_ready(self, sock, pred):
        """Future resolved (from the controller context) when pred(sock) holds."""
        fut = self.create_future()

        def listener():
            if pred(sock):
                try:
                    sock.listeners.remove(listener)
                except ValueError:
                    pass
                self.call_soon_threadsafe(lambda: fut.done() or fut.set_result(None))
        sock.listeners.append(listener)
        fut.add_done_callback(lambda f: listener in sock.listeners and sock.listeners.remove(listener))
        if pred(sock):
            listener()
        return fut

    async def sock_recv(self, sock, n):
        while True:
            try:
                return sock.recv(n)
            except OSError as e:
                if e.errno != errno.EAGAIN:
                    raise
            await self._wait_ready(sock, lambda s: s.readable() or s.closed)

    async def sock_sendall(self, sock, data):
        view = bytes(data)
        while view:
            if self.send_fault is not None:
                exc = self.send_fault(sock, len(view))
                if exc is not None:
                    raise exc
            try:
                n = sock.send(view)
            except OSError as e:
                if e.errno != errno.EAGAIN:
                    raise
                await self._wait_ready(sock, lambda s: s.writable() or s.closed)
                continue
            view = view[n:]
            if view:
                await asyncio.sleep(0)


def new_loop():
    return SimLoop()
