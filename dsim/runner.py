"""Run management: seeds -> plans -> forked runs -> aggregation -> evidence / replay / minimisation.

Process tree: check (parent) -> J workers -> one forked child per run.  A child is a pure
function of (property, seed, plan[, choices]) and the code under $VERIF_REPO.
"""
import faulthandler
import gc
import hashlib
import importlib
import json
import os
import random
import select
import signal
import subprocess
import sys
import time
import traceback

from .core import _mix, Sim, StepCap, Deadlock, HarnessError

VERIF = os.path.dirname(os.path.dirname(os.path.abspath(__file__)))
_OUT = os.environ.get('VERIF_OUT') or VERIF       # trials against a patched scratch copy write their evidence/replays elsewhere
REPLAYS = os.path.join(_OUT, 'replays')
EVIDENCE = os.path.join(_OUT, 'evidence')
KNOWN = os.path.join(VERIF, 'known_findings.json')


def load_prop(pid):
    return importlib.import_module('props.%s' % pid.lower())


def run_seed(master, pid, i):
    return _mix(master, '%s/%d' % (pid, i)) & 0x7fffffffffff


def plan_rng(seed):
    return random.Random(_mix(seed, 'plan'))


PINNED = os.path.join(VERIF, 'pinned')
PIN_SEEDS = 12               # schedule seeds per pinned plan and invocation
_pinned_cache = {}


def pinned_plans(pid):
    """Committed plans (/verif/pinned/<Cnn>-*.json: rare scenarios found by the thorough tier or by seeded changes) that every
    invocation re-runs first, each under PIN_SEEDS fresh schedule seeds.  Only the plan is pinned; schedules are drawn anew."""
    if pid not in _pinned_cache:
        out = []
        try:
            names = sorted(n for n in os.listdir(PINNED) if n.startswith(pid + '-') and n.endswith('.json'))
        except OSError:
            names = []
        for n in names:
            try:
                with open(os.path.join(PINNED, n)) as f:
                    out.append(json.load(f)['plan'])
            except (IOError, ValueError, KeyError):
                pass
        _pinned_cache[pid] = out
    return _pinned_cache[pid]


def make_plan(prop, pid, seed, i, tier):
    """Run index i -> plan: the first len(pinned)*PIN_SEEDS indices replay pinned plans, the rest are generated from the seed."""
    pins = pinned_plans(pid)
    if i is not None and 0 <= i < len(pins) * PIN_SEEDS:
        return json.loads(json.dumps(pins[i // PIN_SEEDS]))
    return prop.gen_plan(plan_rng(seed), tier)


# ------------------------------------------------------------------ one run, in this process
def execute(prop, plan, seed, choices=None, want_choices=False, want_log=False):
    """Run one plan.  Must be called in a fresh forked child (global state is consumed)."""
    # every run starts from the same collector state whatever this process did before (a weak reference that is cleared by a
    # collection at a history-dependent moment would make the run depend on the runs before it), and no collection happens during it
    gc.collect()
    gc.disable()
    t0 = time.time()
    res = {'seed': seed}
    try:
        out = prop.run_plan(plan, seed, choices)
        res.update(out)
        res.setdefault('status', 'ok')
    except HarnessError as e:
        res.update(status='harness_error', error=repr(e), tb=traceback.format_exc())
    except (StepCap, Deadlock) as e:
        res.update(status='harness_error', error=repr(e), tb=traceback.format_exc())
    except BaseException as e:
        res.update(status='harness_error', error=repr(e), tb=traceback.format_exc())
    sim = Sim.current
    if sim is not None:
        res.setdefault('digest', sim.digest())
        res.setdefault('steps', sim.steps)
        res.setdefault('vtime', round(sim.vnow(), 4))
        res.setdefault('probes', dict(sim.probes))
        res['preemptions'] = sim.preemptions
        if sim.replay_diverged:
            res['replay_diverged'] = True
        if want_choices or res.get('violations'):
            res['choices'] = list(sim.choices)
        if want_log or res.get('violations') or res.get('status') != 'ok':
            res['log_tail'] = [list(e) for e in sim.log[-120:]]
            if sim.crashes:
                res['crashes'] = [[c[0], c[1], c[2][-1500:]] for c in sim.crashes[:4]]
            from props import common as _c
            res['driver_log'] = [list(x) for x in _c.LOGS if x[0] in ('ERROR', 'CRITICAL')][:12] + \
                [list(x) for x in _c.LOGS if x[0] == 'WARNING'][:8]
        try:
            leaked = sim.teardown()
            if leaked:
                res['leaked_threads'] = leaked
        except BaseException as e:
            res['teardown_error'] = repr(e)
    from props import common as _common
    _common.restore_knobs()
    Sim.current = None
    res['wall'] = round(time.time() - t0, 4)
    return res


def fork_run(prop, plan, seed, choices=None, wall_cap=120.0, want_choices=False):
    """Fork a child for one run; returns its result dict (status 'killed' on wall cap)."""
    r, w = os.pipe()
    pid = os.fork()
    if pid == 0:
        code = 0
        try:
            os.close(r)
            faulthandler.enable()
            res = execute(prop, plan, seed, choices, want_choices=want_choices)
            data = json.dumps(res, default=repr).encode()
            with os.fdopen(w, 'wb') as f:
                f.write(data)
        except BrokenPipeError:
            code = 0                 # the reader went away (batch over): nobody wants this result
        except BaseException:
            traceback.print_exc()
            code = 3
        finally:
            os._exit(code)
    os.close(w)
    chunks = []
    deadline = time.time() + wall_cap
    killed = False
    while True:
        rem = deadline - time.time()
        if rem <= 0:
            killed = True
            break
        rl, _, _ = select.select([r], [], [], min(rem, 1.0))
        if rl:
            b = os.read(r, 1 << 16)
            if not b:
                break
            chunks.append(b)
    os.close(r)
    if killed:
        try:
            os.kill(pid, signal.SIGKILL)
        except OSError:
            pass
    os.waitpid(pid, 0)
    if killed:
        return {'seed': seed, 'status': 'killed', 'error': 'wall cap %.0fs' % wall_cap}
    try:
        return json.loads(b''.join(chunks).decode())
    except ValueError:
        return {'seed': seed, 'status': 'harness_error', 'error': 'child died without a result'}


# ------------------------------------------------------------------ worker
def _block_child(prop, pid_, master, indices, tier, out_fd, wall_cap):
    """Runs a block of seeds sequentially in this (forked) process; one JSON line per run."""
    out = os.fdopen(out_fd, 'w')
    faulthandler.enable()

    def on_alarm(signum, frame):
        sys.stderr.write('dsim: run exceeded its wall cap (%.0fs); stacks follow\n' % wall_cap)
        faulthandler.dump_traceback(all_threads=True)
        os._exit(4)
    signal.signal(signal.SIGALRM, on_alarm)
    T = {'start': 0.0, 'plan': 0.0, 'exec': 0.0, 'emit': 0.0, 'gc': 0.0}
    tb0 = time.time()
    # the parent stops reading once it has a violation to confirm: a closed pipe ends this block quietly
    signal.signal(signal.SIGPIPE, lambda *a: os._exit(0))
    for n, i in enumerate(indices):
        t_a = time.time()
        try:
            out.write('START %d\n' % i)
            out.flush()
        except BrokenPipeError:
            os._exit(0)
        signal.setitimer(signal.ITIMER_REAL, wall_cap)
        T['start'] += time.time() - t_a
        seed = run_seed(master, pid_, i)
        plan = make_plan(prop, pid_, seed, i, tier)
        t_b = time.time()
        res = execute(prop, plan, seed)
        T['exec'] += time.time() - t_b
        signal.setitimer(signal.ITIMER_REAL, 0)
        res['index'] = i
        if res.get('violations') or res.get('status') != 'ok' or i < 3:
            res['plan'] = plan
        try:
            out.write(json.dumps(res, default=repr) + '\n')
            out.flush()
        except BrokenPipeError:
            os._exit(0)
        if n % 50 == 49:
            t_c = time.time()
            gc.collect()
            T['gc'] += time.time() - t_c
    if os.environ.get('VERIF_PROFILE'):
        sys.stderr.write('block %d runs %.2fs %s\n' % (len(indices), time.time() - tb0, T))
    out.close()


def _worker(prop, pid_, master, indices, deadline, out_fd, wall_cap, tier, det_indices, block, slot=0):
    signal.signal(signal.SIGTERM, lambda *a: os._exit(0))
    try:
        # all threads of a run on one core: baton hand-offs never need a cross-CPU wake-up
        cpus = sorted(os.sched_getaffinity(0))
        os.sched_setaffinity(0, {cpus[slot % len(cpus)]})
    except (AttributeError, OSError):
        pass
    out = os.fdopen(out_fd, 'w')

    def emit(res):
        try:
            out.write(json.dumps(res, default=repr) + '\n')
            out.flush()
        except (BrokenPipeError, OSError):
            os._exit(0)

    pos = 0
    while pos < len(indices) and time.time() < deadline:
        blk = indices[pos:pos + block]
        r, w = os.pipe()
        child = os.fork()
        if child == 0:
            code = 0
            try:
                os.close(r)
                signal.signal(signal.SIGTERM, signal.SIG_DFL)
                _block_child(prop, pid_, master, blk, tier, w, wall_cap)
            except BaseException:
                traceback.print_exc()
                code = 3
            finally:
                os._exit(code)
        os.close(w)
        current = None
        done = 0
        with os.fdopen(r, 'r') as f:
            for line in f:
                if line.startswith('START '):
                    current = int(line.split()[1])
                    if time.time() > deadline:
                        break
                    continue
                try:
                    res = json.loads(line)
                except ValueError:
                    continue
                done += 1
                current = None
                i = res.get('index')
                if res.get('violations') and res.get('status') == 'ok':
                    # confirm in a fresh process (the block child reuses its interpreter)
                    res2 = fork_run(prop, res['plan'], res['seed'], wall_cap=wall_cap * 2)
                    if not all(same_violation(res2, v) for v in res['violations']):
                        res = {'seed': res['seed'], 'index': i, 'status': 'harness_error', 'plan': res['plan'],
                               'error': 'violation %s seen in a reused interpreter did not reproduce in a fresh '
                                        'process (state leak between runs)' % res['violations'][0]}
                    else:
                        res2['index'] = i
                        res2['plan'] = res['plan']
                        res = res2
                if i in det_indices and res.get('status') == 'ok':
                    res2 = fork_run(prop, make_plan(prop, pid_, res['seed'], i, tier), res['seed'],
                                    wall_cap=wall_cap * 2)
                    res['det_pair'] = [res.get('digest'), res2.get('digest')]
                emit(res)
        try:
            os.kill(child, signal.SIGKILL)
        except OSError:
            pass
        try:
            _, wst = os.waitpid(child, 0)
        except OSError:
            wst = 0
        capped = os.WIFEXITED(wst) and os.WEXITSTATUS(wst) == 4
        if current is not None and capped and time.time() > deadline:
            # the run hung until its wall cap and the budget is over: it is reported (HARNESS-ERROR), never dropped
            seed = run_seed(master, pid_, current)
            emit({'seed': seed, 'index': current, 'status': 'killed', 'plan': make_plan(prop, pid_, seed, current, tier),
                  'error': 'wall cap %.0fs (run did not finish; budget over, not retried)' % wall_cap})
            done += 1
        elif current is not None and time.time() <= deadline:
            # the child died (wall cap or crash) inside run `current`: retry it alone, then go on
            seed = run_seed(master, pid_, current)
            plan = make_plan(prop, pid_, seed, current, tier)
            res = fork_run(prop, plan, seed, wall_cap=wall_cap * 2)
            res['index'] = current
            res['plan'] = plan
            emit(res)
            done += 1
        pos += max(done, 1)
    out.close()
    os._exit(0)


def load_known(pid):
    try:
        with open(KNOWN) as f:
            data = json.load(f)
    except (IOError, ValueError):
        return [], []
    open_ = [k for k in data.get('findings', []) if k.get('property') == pid]
    fixed = [k for k in data.get('fixed', []) if k.get('property') == pid]
    return open_, fixed


def is_known(v, known):
    for k in known:
        if k.get('rule') == v.get('rule') and k.get('sig') == v.get('sig'):
            return k
    return None


# ------------------------------------------------------------------ the check
def run_check(pid, tier, master, budget_s=None, jobs=None, max_runs=None, quiet=False):
    prop = load_prop(pid)
    cfg = dict(getattr(prop, 'TIERS', {}).get(tier, {}))
    runs = max_runs or int(os.environ.get('VERIF_RUNS', 0)) or cfg.get('runs', 1000)
    budget = budget_s or float(os.environ.get('VERIF_BUDGET_S', 0)) or cfg.get('budget_s', 60.0)
    jobs = jobs or int(os.environ.get('VERIF_JOBS', 0)) or min(16, os.cpu_count() or 4)
    wall_cap = cfg.get('wall_cap', 90.0)
    t0 = time.time()
    deadline = t0 + budget
    if hasattr(prop, 'prepare'):
        prop.prepare()
    gc.collect()
    gc.freeze()          # forked children never traverse (and never COW-fault) the imported heap
    det_n = cfg.get('det_pairs', 6)
    det_indices = set(range(0, det_n))
    workers = []
    for w in range(jobs):
        indices = list(range(w, runs, jobs))
        if not indices:
            continue
        r, wfd = os.pipe()
        p = os.fork()
        if p == 0:
            os.close(r)
            try:
                _worker(prop, pid, master, indices, deadline, wfd, wall_cap, tier, det_indices, cfg.get('block', 200), w)
            finally:
                os._exit(0)
        os.close(wfd)
        workers.append((p, r, bytearray()))
    agg = Aggregate(pid, prop)
    known, fixed = load_known(pid)
    fds = {r: (p, buf) for p, r, buf in workers}
    stop = False
    while fds:
        rl, _, _ = select.select(list(fds), [], [], 1.0)
        for r in rl:
            b = os.read(r, 1 << 16)
            p, buf = fds[r]
            if not b:
                os.close(r)
                del fds[r]
                continue
            buf += b
            while True:
                nl = buf.find(b'\n')
                if nl < 0:
                    break
                line = bytes(buf[:nl])
                del buf[:nl + 1]
                res = json.loads(line.decode())
                agg.add(res)
                for v in res.get('violations') or []:
                    if not is_known(v, known):
                        stop = True
        if stop:
            break
    for p, r, buf in workers:
        if stop:
            try:
                os.kill(p, signal.SIGTERM)
            except OSError:
                pass
    for r in list(fds):
        os.close(r)
    for p, r, buf in workers:
        try:
            os.waitpid(p, 0)
        except OSError:
            pass
    wall_runs = time.time() - t0
    # ---- classify
    exit_code = 0
    lines = []
    unlisted = agg.first_unlisted(known)
    replay_path = None
    if unlisted is not None:
        res, v = unlisted
        replay_path = report_violation(prop, pid, res, v, tier, lines,
                                       min_budget=cfg.get('min_budget_s', 25.0))
        exit_code = 1
    if agg.harness_errors and exit_code == 0:
        e = agg.harness_errors[0]
        os.makedirs(REPLAYS, exist_ok=True)
        hp = os.path.join(REPLAYS, 'HARNESS-%s-%s.json' % (pid, e.get('seed')))
        with open(hp, 'w') as f:
            json.dump(e, f, indent=1, default=repr)
        lines.append('HARNESS-ERROR property=%s %s %s (seed %s, details %s)' % (pid, e.get('status'), (e.get('error') or '')[:300], e.get('seed'), hp))
        if e.get('tb'):
            sys.stderr.write(e['tb'] + '\n')
        exit_code = 2
    if agg.det_mismatch and exit_code == 0:
        lines.append('HARNESS-ERROR property=%s determinism mismatch on seed(s) %s' % (pid, agg.det_mismatch[:3]))
        exit_code = 2
    if agg.runs == 0 and exit_code == 0:
        lines.append('HARNESS-ERROR property=%s no run completed' % pid)
        exit_code = 2
    for k in known:
        seen = agg.known_seen.get((k.get('rule'), k.get('sig')), 0)
        lines.append('KNOWN-FINDING: property=%s %s [%s/%s] (re-observed in %d runs of this invocation)'
                     % (pid, k.get('what', ''), k.get('rule'), k.get('sig'), seen))
    wall = time.time() - t0
    ev = agg.evidence(tier, master, wall, wall_runs, known, fixed, replay_path, exit_code, jobs)
    os.makedirs(EVIDENCE, exist_ok=True)
    with open(os.path.join(EVIDENCE, '%s.json' % pid), 'w') as f:
        json.dump(ev, f, indent=1, sort_keys=True, default=repr)
    if not quiet:
        cov = ev['coverage']
        print('%s tier=%s seed=%d runs=%d distinct=%d nontrivial=%d steps=%d vtime=%.0fs wall=%.1fs runs/h=%d'
              % (pid, tier, master, agg.runs, len(agg.digests), cov['distinct_nontrivial'], agg.steps,
                 agg.vtime, wall, cov['runs_per_hour']))
        print('  in-run wall total %.1fs (%.2f ms/run), process wall for runs %.1fs' % (agg.child_wall, 1000 * agg.child_wall / max(agg.runs, 1), wall_runs))
        print('  faults fired: %s' % json.dumps(agg.faults, sort_keys=True))
        print('  probes: %s' % json.dumps(agg.probes, sort_keys=True))
        if agg.other:
            print('  other anomalies (not deciding): %s' % json.dumps(agg.other, sort_keys=True))
    for l in lines:
        print(l)
    sys.stdout.flush()
    return exit_code


class Aggregate(object):
    def __init__(self, pid, prop):
        self.pid = pid
        self.prop = prop
        self.runs = 0
        self.steps = 0
        self.vtime = 0.0
        self.child_wall = 0.0
        self.faults = {}
        self.probes = {}
        self.statuses = {}
        self.digests = set()
        self.nontrivial = set()
        self.states = set()
        self.samples = []
        self.violations = []        # (res, v)
        self.known_seen = {}
        self.harness_errors = []
        self.det_pairs = 0
        self.det_mismatch = []
        self.other = {}
        self.preemptions = 0
        self.rules_checked = {}
        self.strata = {}

    def add(self, res):
        st = res.get('status')
        self.statuses[st] = self.statuses.get(st, 0) + 1
        if st != 'ok':
            self.harness_errors.append(res)
            return
        self.runs += 1
        self.steps += res.get('steps', 0)
        self.vtime += res.get('vtime', 0.0)
        self.child_wall += res.get('wall', 0.0)
        self.preemptions += res.get('preemptions', 0)
        for k, n in (res.get('faults') or {}).items():
            self.faults[k] = self.faults.get(k, 0) + n
        for k, n in (res.get('probes') or {}).items():
            self.probes[k] = self.probes.get(k, 0) + n
        for k, n in (res.get('other') or {}).items():
            self.other[k] = self.other.get(k, 0) + n
        for k, n in (res.get('rules_checked') or {}).items():
            self.rules_checked[k] = self.rules_checked.get(k, 0) + n
        s = res.get('stratum')
        if s:
            self.strata[s] = self.strata.get(s, 0) + 1
        d = res.get('digest')
        self.digests.add(d)
        if res.get('nontrivial'):
            self.nontrivial.add(d)
        for s in res.get('states') or []:
            self.states.add(s)
        if 'det_pair' in res:
            self.det_pairs += 1
            a, b = res['det_pair']
            if a != b:
                self.det_mismatch.append(res.get('seed'))
        if len(self.samples) < 3 and res.get('plan') is not None:
            self.samples.append({'seed': res.get('seed'), 'plan': _shorten(res['plan']),
                                 'summary': res.get('summary'), 'steps': res.get('steps'),
                                 'vtime': res.get('vtime'), 'digest': d})
        for v in res.get('violations') or []:
            self.violations.append((res, v))

    def first_unlisted(self, known):
        out = None
        for res, v in self.violations:
            k = is_known(v, known)
            if k:
                key = (v.get('rule'), v.get('sig'))
                self.known_seen[key] = self.known_seen.get(key, 0) + 1
            elif out is None:
                out = (res, v)
        return out

    def evidence(self, tier, master, wall, wall_runs, known, fixed, replay_path, exit_code, jobs):
        prop = self.prop
        unl = [v for r, v in self.violations if not is_known(v, known)]
        cov = {
            'evaluations': self.runs,
            'distinct_nontrivial': len(self.nontrivial),
            'rule': getattr(prop, 'COVERAGE_RULE', ''),
            'samples': self.samples,
            'distinct_digests': len(self.digests),
            'distinct_abstract_states': len(self.states),
            'scheduler_steps': self.steps,
            'line_preemptions': self.preemptions,
            'simulated_seconds': round(self.vtime, 1),
            'runs_per_hour': int(self.runs / max(wall_runs, 1e-6) * 3600),
            'seeds_per_hour': int(self.runs / max(wall_runs, 1e-6) * 3600),
            'jobs': jobs,
            'fault_kinds_fired': self.faults,
            'probes': self.probes,
            'coverage_gaps': [p for p in getattr(prop, 'REQUIRED_PROBES', []) if not self.probes.get(p)],
            'rules_checked': self.rules_checked,
            'strata': self.strata,
            'run_statuses': self.statuses,
            'pinned_plans': len(pinned_plans(self.pid)) if hasattr(self, 'pid') else 0,
            'determinism_pairs': self.det_pairs,
            'determinism_mismatches': len(self.det_mismatch),
            'other_anomalies_not_deciding': self.other,
            'real_vs_stub': getattr(prop, 'WORLD_INFO', {}),
            'rules': getattr(prop, 'RULES', {}),
            'known_findings': [{'rule': k.get('rule'), 'sig': k.get('sig'), 'what': k.get('what'),
                                'reobserved_runs': self.known_seen.get((k.get('rule'), k.get('sig')), 0)}
                               for k in known],
            'fixed_findings': fixed,
            'exhaustive': False,
            'exit_code': exit_code,
        }
        if replay_path:
            cov['replay'] = replay_path
        return {
            'property_id': self.pid,
            'tier': tier,
            'seed': master,
            'level': 'exploration',
            'coverage': cov,
            'assumptions': list(getattr(prop, 'ASSUMPTIONS', [])),
            'wall_s': round(wall, 2),
            'violations': len(unl),
        }


def _shorten(obj, depth=0):
    if isinstance(obj, dict):
        return {k: _shorten(v, depth + 1) for k, v in obj.items()}
    if isinstance(obj, list):
        if len(obj) > 12:
            return [_shorten(x, depth + 1) for x in obj[:12]] + ['... %d more' % (len(obj) - 12)]
        return [_shorten(x, depth + 1) for x in obj]
    if isinstance(obj, str) and len(obj) > 200:
        return obj[:200] + '...'
    return obj


# ------------------------------------------------------------------ violation reporting
def same_violation(res, v):
    for w in res.get('violations') or []:
        if w.get('rule') == v.get('rule') and w.get('sig') == v.get('sig'):
            return w
    return None


def write_replay(pid, seed, plan, res, v, note=None):
    os.makedirs(REPLAYS, exist_ok=True)
    path = os.path.join(REPLAYS, '%s-%d.json' % (pid, seed))
    doc = {'property': pid, 'rule': v.get('rule'), 'sig': v.get('sig'), 'message': v.get('msg'),
           'seed': seed, 'plan': plan, 'choices': _rle(res.get('choices') or []),
           'digest': res.get('digest'), 'steps': res.get('steps'), 'log_tail': res.get('log_tail'),
           'crashes': res.get('crashes'), 'minimisation': note or {}}
    with open(path, 'w') as f:
        json.dump(doc, f, indent=1, default=repr)
    return path


def _rle(xs):
    out = []
    for x in xs:
        if out and out[-1][0] == x:
            out[-1][1] += 1
        else:
            out.append([x, 1])
    return out


def _unrle(xs):
    out = []
    for x, n in xs:
        out.extend([x] * n)
    return out


def report_violation(prop, pid, res, v, tier, lines, min_budget=25.0):
    seed = res['seed']
    plan = res.get('plan')
    if plan is None:
        plan = prop.gen_plan(plan_rng(seed), tier)
    note = {'original_seed': seed}
    best = (plan, seed, res)
    try:
        best, note = minimise(prop, plan, seed, res, v, min_budget)
    except Exception:
        note['minimiser_error'] = traceback.format_exc()[-600:]
    plan, seed, res = best
    path = write_replay(pid, seed, plan, res, v, note)
    # verify the replay in a fresh interpreter
    cp = subprocess.run([sys.executable, '-m', 'dsim.cli', 'replay', path], capture_output=True, text=True,
                        env=dict(os.environ, VERIF_QUIET='1'), cwd=VERIF)
    if cp.returncode == 1 and ('VIOLATION property=%s' % pid) in cp.stdout:
        lines.append('violation: property=%s rule=%s sig=%s seed=%d : %s'
                     % (pid, v.get('rule'), v.get('sig'), seed, (v.get('msg') or '')[:400]))
        lines.append('VIOLATION property=%s replay=%s' % (pid, path))
    else:
        lines.append('HARNESS-ERROR property=%s replay of %s did not reproduce (rc=%d): %s'
                     % (pid, path, cp.returncode, (cp.stdout + cp.stderr)[-400:]))
        lines.append('VIOLATION property=%s replay=%s' % (pid, path))
    return path


def replay_file(path):
    with open(path) as f:
        doc = json.load(f)
    pid = doc['property']
    prop = load_prop(pid)
    if hasattr(prop, 'prepare'):
        prop.prepare()
    choices = _unrle(doc.get('choices') or []) or None
    res = fork_run(prop, doc['plan'], doc['seed'], choices=choices, want_choices=False, wall_cap=600)
    v = {'rule': doc['rule'], 'sig': doc['sig']}
    w = same_violation(res, v)
    same_digest = res.get('digest') == doc.get('digest')
    print('replay %s: status=%s digest=%s (%s recorded %s) steps=%s' % (
        path, res.get('status'), res.get('digest'), 'same as' if same_digest else 'DIFFERS from',
        doc.get('digest'), res.get('steps')))
    if w:
        print('violation: property=%s rule=%s sig=%s : %s' % (pid, w.get('rule'), w.get('sig'), w.get('msg')))
        print('VIOLATION property=%s replay=%s' % (pid, path))
        return 1
    for x in res.get('violations') or []:
        print('other violation in replay: %s/%s %s' % (x.get('rule'), x.get('sig'), x.get('msg')))
    if res.get('status') != 'ok':
        print('replay status %s: %s' % (res.get('status'), res.get('error')))
        return 2
    print('replay did not reproduce the recorded violation')
    return 0


# ------------------------------------------------------------------ minimisation
def _try(prop, plan, seeds, v, wall_cap=60):
    for s in seeds:
        res = fork_run(prop, plan, s, wall_cap=wall_cap, want_choices=True)
        if res.get('status') == 'ok' and same_violation(res, v):
            return s, res
    return None


def minimise(prop, plan, seed, res, v, budget_s):
    """ddmin over the plan's list fields, then zeroing of scheduler choices.  Time bounded."""
    t_end = time.time() + budget_s
    note = {'original_seed': seed, 'plan_items_before': _plan_size(prop, plan)}
    alt = [seed] + [_mix(seed, 'min%d' % k) & 0x7fffffffffff for k in range(3)]
    cur, cur_seed, cur_res = plan, seed, res
    paths = list(getattr(prop, 'SHRINK_LISTS', []))
    tries = 0
    for path in paths:
        lst = _get(cur, path)
        if not isinstance(lst, list) or not lst:
            continue
        n = 2
        while len(lst) >= 1 and time.time() < t_end:
            chunk = max(1, len(lst) // n)
            reduced = False
            for start in range(0, len(lst), chunk):
                if time.time() >= t_end:
                    break
                cand_list = lst[:start] + lst[start + chunk:]
                cand = _set(cur, path, cand_list)
                if hasattr(prop, 'plan_ok') and not prop.plan_ok(cand):
                    continue
                tries += 1
                hit = _try(prop, cand, [cur_seed] + alt, v)
                if hit:
                    cur, (cur_seed, cur_res) = cand, hit
                    lst = cand_list
                    n = max(n - 1, 2)
                    reduced = True
                    break
            if not reduced:
                if chunk == 1:
                    break
                n = min(n * 2, len(lst))
    if hasattr(prop, 'simplify'):
        for cand in prop.simplify(cur):
            if time.time() >= t_end:
                break
            tries += 1
            hit = _try(prop, cand, [cur_seed] + alt, v)
            if hit:
                cur, (cur_seed, cur_res) = cand, hit
    # schedule minimisation: replace draws by 0 (= keep running the current actor)
    choices = list(cur_res.get('choices') or [])
    nz_before = sum(1 for c in choices if c)
    block = max(1, len(choices) // 4)
    while block >= 1 and time.time() < t_end and choices:
        i = 0
        while i < len(choices) and time.time() < t_end:
            if any(choices[i:i + block]):
                cand = choices[:i] + [0] * min(block, len(choices) - i) + choices[i + block:]
                r2 = fork_run(prop, cur, cur_seed, choices=cand, wall_cap=60, want_choices=True)
                tries += 1
                if r2.get('status') == 'ok' and same_violation(r2, v):
                    choices = list(r2.get('choices') or cand)
                    cur_res = r2
            i += block
        if block == 1:
            break
        block //= 2
    if choices and cur_res.get('choices') is not None:
        # make sure the recorded result corresponds to the recorded choices
        r3 = fork_run(prop, cur, cur_seed, choices=choices, wall_cap=60, want_choices=True)
        if r3.get('status') == 'ok' and same_violation(r3, v):
            cur_res = r3
    note.update(plan_items_after=_plan_size(prop, cur), candidate_runs=tries, final_seed=cur_seed,
                preemptions_before=nz_before,
                preemptions_after=sum(1 for c in (cur_res.get('choices') or []) if c))
    return (cur, cur_seed, cur_res), note


def _plan_size(prop, plan):
    n = 0
    for path in getattr(prop, 'SHRINK_LISTS', []):
        l = _get(plan, path)
        if isinstance(l, list):
            n += len(l)
    return n


def _get(d, path):
    cur = d
    for p in path.split('.'):
        if isinstance(cur, dict) and p in cur:
            cur = cur[p]
        else:
            return None
    return cur


def _set(d, path, val):
    parts = path.split('.')
    d = json.loads(json.dumps(d))
    cur = d
    for p in parts[:-1]:
        cur = cur[p]
    cur[parts[-1]] = val
    return d
