"""Installs the simulator behind the driver's module-level names.  No file under /repo is edited.

install_static(): once per process, before any driver object exists (rebinding of class names).
install_run(sim, net): per run (PRNG-bound functions, socket module, reset of per-process state).
"""
import sys
import uuid as _uuid

from . import core, executor, libev
from .core import (SimLock, SimRLock, SimCondition, SimEvent, SimThread, SimTime, SimQueueModule)

_static_done = [False]
ALL_CONNS = []           # per run: every Connection object created (observation only)
POOL_CONN_KNOBS = {}     # per run: attribute -> value set on pooled (non-control) connections
M = {}          # short name -> driver module
SIMTIME = SimTime()


class _UuidModule(object):
    """cassandra.cluster.uuid stand-in: uuid4 from the run's driver stream."""

    def __getattr__(self, name):
        return getattr(_uuid, name)

    @staticmethod
    def uuid4():
        return _uuid.UUID(int=core.Sim.current.driver_rng.getrandbits(128), version=4)


def _drv_random():
    return core.Sim.current.driver_rng.random()


def _drv_randint(a, b):
    return core.Sim.current.driver_rng.randint(a, b)


def _drv_shuffle(x):
    return core.Sim.current.driver_rng.shuffle(x)


def import_driver():
    libev.install()
    import cassandra.connection as cconn
    import cassandra.io.libevreactor as lr
    import cassandra.cluster as ccl
    import cassandra.pool as cpool
    import cassandra.policies as cpol
    import cassandra.metadata as cmeta
    import cassandra.timestamps as cts
    import cassandra.query as cq
    import cassandra.concurrent as cconc
    import cassandra.io.asyncioreactor as ar
    M.update(cconn=cconn, lr=lr, ccl=ccl, cpool=cpool, cpol=cpol, cmeta=cmeta, cts=cts, cq=cq, cconc=cconc, ar=ar)
    try:
        import cassandra.io.twistedreactor as tr
        M['tr'] = tr
    except ImportError:
        pass
    return M


def install_static():
    if _static_done[0]:
        return M
    _static_done[0] = True
    import_driver()
    cconn, lr, ccl, cpool, cpol = M['cconn'], M['lr'], M['ccl'], M['cpool'], M['cpol']
    for mod in M.values():
        for name, obj in (('Lock', SimLock), ('RLock', SimRLock), ('Condition', SimCondition),
                          ('Event', SimEvent), ('Thread', SimThread)):
            if hasattr(mod, name):
                setattr(mod, name, obj)
        t = getattr(mod, 'time', None)
        if t is not None and not callable(t):
            setattr(mod, 'time', SIMTIME)
    ccl.ThreadPoolExecutor = executor.SimExecutor
    ccl.wait_futures = executor.wait
    ccl.FIRST_COMPLETED = executor.FIRST_COMPLETED
    ccl.queue = SimQueueModule
    ccl.ControlConnection._time = SIMTIME
    ccl.random = _drv_random
    ccl.uuid = _UuidModule()
    cpol.randint = _drv_randint
    cpol.shuffle = _drv_shuffle
    # deterministic iteration order of id-hashed sets the driver iterates (connections, sessions)
    serial = [0]
    orig_init = cconn.Connection.__init__

    def _conn_init(self, *a, **k):
        serial[0] += 1
        self._sim_serial = serial[0]
        if POOL_CONN_KNOBS and not k.get('is_control_connection'):
            # capacity knobs for pooled connections only (instance attributes read by the real __init__)
            for name, val in POOL_CONN_KNOBS.items():
                setattr(self, name, val)
        ALL_CONNS.append(self)
        orig_init(self, *a, **k)
    cconn.Connection.__init__ = _conn_init
    cconn.Connection.__hash__ = lambda self: self.__dict__.get('_sim_serial', 0)
    cconn.Connection._sim_serial_counter = serial
    s_serial = [0]
    orig_sinit = ccl.Session.__init__

    def _sess_init(self, *a, **k):
        s_serial[0] += 1
        self._sim_serial = s_serial[0]
        orig_sinit(self, *a, **k)
    ccl.Session.__init__ = _sess_init
    ccl.Session._sim_serial_counter = s_serial
    ccl.Session.__hash__ = lambda self: self.__dict__.get('_sim_serial', 0)
    for cls in (ccl._Scheduler, cconn.ConnectionHeartbeat):
        if cls.__bases__ != (SimThread,):
            cls.__bases__ = (SimThread,)
    return M


def install_run(sim, net):
    """Per-run state: socket seam, fresh global loop, fd table."""
    install_static()
    libev.set_net(net)
    lr = M['lr']
    lr._global_loop = None
    lr.LibevConnection._socket_impl = net.module()
    M['cconn'].Connection._sim_serial_counter[0] = 0
    M['ccl'].Session._sim_serial_counter[0] = 0      # sessions live in a WeakSet: their hash decides its iteration order
    POOL_CONN_KNOBS.clear()
    del ALL_CONNS[:]
    executor.SimFuture._serial[0] = 0
    return M


def driver_funcs(*specs):
    """Resolve 'mod:Class.method' strings to function objects (for line pre-emption lists)."""
    out = []
    for sp in specs:
        modname, _, path = sp.partition(':')
        obj = M[modname] if modname in M else sys.modules[modname]
        for part in path.split('.'):
            obj = getattr(obj, part)
        out.append(obj)
    return out
