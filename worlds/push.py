"""W-PUSH: the real AsyncioConnection / TwistedConnection write paths over simulated sockets.

asyncio: real asyncio.BaseEventLoop scheduling on the virtual clock (dsim.aioloop.SimLoop).
twisted: a MemoryReactorClock-based reactor stub (callFromThread FIFO, delayed calls on the virtual clock) and a transport stub that
buffers writes and flushes them through the simulated socket (EAGAIN, partial writes) - Twisted's own reactor and transport are NOT the
subject; TwistedConnection.push and the driver's TwistedLoop are.
"""
import errno

from dsim import seams, aioloop
from dsim.core import Sim, SimThread, SimLock
from dsim.net import SimNet
from fakecass import codec as C
from props.common import set_knob

ADDR = '10.0.0.1'


class RawPeer(object):
    """Answers the CQL handshake, then records every later byte of the connection verbatim."""

    def __init__(self, sim):
        self.sim = sim
        self.mode = 'accept'
        self.conns = []

    def connect_mode(self, conn):
        return self.mode

    def accept(self, conn):
        pc = _RawConn(self, conn)
        self.conns.append(pc)
        return pc


class _RawConn(object):
    def __init__(self, peer, conn):
        self.peer = peer
        self.conn = conn
        self.frames = C.FrameParser()
        self.ready = False
        self.stream = bytearray()
        self.arrivals = []          # (seq, nbytes)
        self.closed = False
        self.stop_reading_after = None

    def on_data(self, conn, data):
        if self.ready:
            self.stream += data
            self.arrivals.append((self.peer.sim.nlog, len(data)))
            return
        # the handshake is two small frames; anything after READY's request belongs to the raw stream
        buf = bytes(data)
        frames = self.frames.feed(buf)
        for fr in frames:
            v, s, op = fr['version'], fr['stream'], fr['opcode']
            if op == C.OPTIONS:
                conn.server_send(C.frame(v, s, C.SUPPORTED, C.supported_body()))
            elif op == C.STARTUP:
                conn.server_send(C.frame(v, s, C.READY, b''))
                self.ready = True
                rest = self.frames.buf if hasattr(self.frames, 'buf') else b''
                if rest:
                    self.stream += bytes(rest)

    def on_close(self, conn):
        self.closed = True


# ------------------------------------------------------------------------------------------------ twisted stubs
def make_reactor(sim, net):
    from twisted.internet.testing import MemoryReactorClock
    from twisted.internet import address, error
    from twisted.python.failure import Failure

    class SimTransport(object):
        def __init__(self, reactor, proto, sock):
            self.reactor, self.proto, self.sock = reactor, proto, sock
            self.connector = self
            self.disconnected = False
            self.buf = bytearray()
            self.write_calls = []          # (seq, nbytes)
            sock.listeners.append(self._ready)

        # -- what TwistedConnection uses
        def write(self, data):
            self.write_calls.append((sim.nlog, len(data)))
            self.buf += bytes(data)
            self._flush()

        def disconnect(self):
            if not self.disconnected:
                self.disconnected = True
                try:
                    self.sock.listeners.remove(self._ready)
                except ValueError:
                    pass
                self.sock.close()
                self.proto.connectionLost(Failure(error.ConnectionDone()))
        loseConnection = disconnect

        def getPeer(self):
            return address.IPv4Address('TCP', ADDR, 9042)

        def getHost(self):
            return address.IPv4Address('TCP', '10.0.0.9', 40000)

        # -- stub internals
        def _ready(self):          # controller context
            self.reactor.callFromThread(self._io)

        def _io(self):
            if self.disconnected:
                return
            self._flush()
            while True:
                try:
                    data = self.sock.recv(65536)
                except OSError as e:
                    if e.errno == errno.EAGAIN:
                        return
                    self._lost(error.ConnectionLost())
                    return
                if not data:
                    self._lost(error.ConnectionDone())
                    return
                self.proto.dataReceived(data)

        def _lost(self, exc):
            if not self.disconnected:
                self.disconnected = True
                self.sock.close()
                self.proto.connectionLost(Failure(exc))

        def _flush(self):
            while self.buf and not self.disconnected:
                try:
                    n = self.sock.send(bytes(self.buf))
                except OSError as e:
                    if e.errno == errno.EAGAIN:
                        return
                    self._lost(error.ConnectionLost())
                    return
                del self.buf[:n]

    class SimReactor(MemoryReactorClock):
        def __init__(self):
            MemoryReactorClock.__init__(self)
            self.queue = []
            self.sleepers = []
            self.running = False
            self._stopped = True
            self.transports = []

        def seconds(self):
            return Sim.current.now

        def callFromThread(self, f, *a, **kw):
            s = Sim.current
            self.queue.append((f, a, kw))
            for t in list(self.sleepers):
                s.wake(t)
            if s.running is not None:
                s.yield_('callFromThread')

        def connectTCP(self, host, port, factory, timeout=30, bindAddress=None):
            def go():
                sock = net.module().socket()
                sock.settimeout(timeout)
                try:
                    sock.connect((host, port))
                except OSError as e:
                    factory.clientConnectionFailed(None, Failure(error.ConnectError(str(e))))
                    return
                proto = factory.buildProtocol(address.IPv4Address('TCP', host, port))
                t = SimTransport(self, proto, sock)
                self.transports.append(t)
                proto.makeConnection(t)
            self.callFromThread(go)
            return object()

        def run(self, installSignalHandlers=False):
            s = Sim.current
            self.running = True
            self._stopped = False
            self.rightNow = s.now
            while self.running:
                q, self.queue = self.queue, []
                for f, a, kw in q:
                    f(*a, **kw)
                if s.now > self.rightNow:
                    self.advance(s.now - self.rightNow)
                if self.queue:
                    s.yield_('reactor.iter')
                    continue
                nxt = min([c.getTime() for c in self.getDelayedCalls()], default=None)
                s.block(self.sleepers, None if nxt is None else max(nxt - s.now, 1e-6), 'reactor.sleep')

        def stop(self):
            self.running = False
            self._stopped = True

    return SimReactor()


class PushWorld(object):
    def __init__(self, plan, seed, choices=None, horizon=120.0, step_cap=1500000, net=None):
        self.plan = plan
        self.sim = Sim(seed, strategy=plan.get('strategy'), step_cap=step_cap, horizon=horizon, choices=choices)
        self.net = SimNet(self.sim, **(net or {}))
        self.M = seams.install_run(self.sim, self.net)
        self.peer = RawPeer(self.sim)
        self.net.listen(ADDR, self.peer)
        self.reactor_kind = plan['reactor']
        cconn = self.M['cconn']
        if self.reactor_kind == 'asyncio':
            import asyncio
            ar = self.M['ar']
            self.mod = ar
            self.conn_class = ar.AsyncioConnection
            set_knob(ar.AsyncioConnection, '_lock', SimLock())
            set_knob(ar.AsyncioConnection, '_loop', None)
            set_knob(ar.AsyncioConnection, '_loop_thread', None)
            set_knob(ar.AsyncioConnection, '_socket_impl', self.net.module())
            set_knob(asyncio, 'new_event_loop', aioloop.new_loop)
            set_knob(asyncio, 'set_event_loop', lambda loop: None)
        else:
            tr = self.M['tr']
            self.mod = tr
            self.conn_class = tr.TwistedConnection
            self.reactor = make_reactor(self.sim, self.net)
            set_knob(tr, 'reactor', self.reactor)
            set_knob(tr.TwistedConnection, '_loop', None)
            set_knob(tr, 'atexit', type('A', (), {'register': staticmethod(lambda *a, **k: None)}))

    def endpoint(self):
        return self.M['cconn'].DefaultEndPoint(ADDR, 9042)

    def factory(self, timeout=5.0, **kw):
        self.conn_class.initialize_reactor()
        return self.conn_class.factory(self.endpoint(), timeout, **kw)

    def loop_call(self, fn):
        """Run fn in the event-loop thread."""
        if self.reactor_kind == 'asyncio':
            self.conn_class._loop.call_soon_threadsafe(fn)
        else:
            self.reactor.callFromThread(fn)

    def spawn(self, fn, name, *args):
        t = SimThread(target=fn, name=name, args=args)
        t.start()
        return t

    def sleep(self, d):
        self.M['cconn'].time.sleep(d)
