"""W-FULL: the real Cluster/Session/ControlConnection/pools/ResponseFuture on simulated libev,
sockets, executor and a fake Cassandra cluster."""
from dsim import seams
from dsim.core import Sim, SimThread, T0
from dsim.net import SimNet
from fakecass.cluster import FakeCluster
from props.common import set_knob


def default_cluster_spec(n=3, release='3.11.4', versions=(3, 4), dcs=None):
    nodes = []
    for i in range(n):
        nodes.append({'dc': (dcs[i] if dcs else 'dc1'), 'rack': 'r1', 'release': release, 'versions': list(versions)})
    return {'nodes': nodes, 'keyspaces': {'ks1': {'class': 'org.apache.cassandra.locator.SimpleStrategy',
                                                  'replication_factor': '2'}}}


class Recorder(object):
    """HostStateListener that only records."""

    def __init__(self, sim):
        self.sim = sim
        self.events = []

    def _r(self, kind, host):
        self.events.append((self.sim.nlog, round(self.sim.vnow(), 6), kind, str(host.endpoint.address)))
        self.sim.rec('listener', '%s %s' % (kind, host.endpoint.address))

    def on_up(self, host):
        self._r('up', host)

    def on_down(self, host):
        self._r('down', host)

    def on_add(self, host):
        self._r('add', host)

    def on_remove(self, host):
        self._r('remove', host)


def control_labels():
    """Labels of the simulated TCP connections the driver opened as control connections (also before they have sent REGISTER)."""
    out = set()
    for c in seams.ALL_CONNS:
        if getattr(c, 'is_control_connection', False):
            lab = getattr(getattr(getattr(c, '_socket', None), 'conn', None), 'label', None)
            if lab:
                out.add(lab)
    return out


class FullWorld(object):
    def __init__(self, plan, seed, choices=None, horizon=120.0, step_cap=600000, net=None):
        self.plan = plan
        self.sim = Sim(seed, strategy=plan.get('strategy'), step_cap=step_cap, horizon=horizon, choices=choices)
        self.sim.time_jump_p = plan.get('time_jump_p', 0.0)
        if plan.get('stall'):
            self.sim.line_stall = tuple(plan['stall'])
        if plan.get('focus_stall'):
            self.sim.focus_stall = tuple(plan['focus_stall'])
        if plan.get('deep_stalls'):
            ds = {}
            for (fn, rel, secs, hits) in plan['deep_stalls']:
                ds.setdefault(fn, []).append([rel, secs, hits])
            self.sim.deep_stalls = ds
        nk = dict(net or {})
        nk.setdefault('chunk_mode', plan.get('chunk_mode', 'whole'))
        self.net = SimNet(self.sim, **nk)
        seams.install_run(self.sim, self.net)
        self.M = seams.M
        self.ccl = self.M['ccl']
        self.cpol = self.M['cpol']
        self.cconn = self.M['cconn']
        self.cpool = self.M['cpool']
        self.fc = FakeCluster(self.sim, self.net, plan['cluster'])
        self.cluster = None
        self.session = None
        self.recorder = Recorder(self.sim)
        self.results = {}
        self.user_threads = []
        knobs = plan.get('knobs') or {}
        C = self.cconn.Connection
        if 'max_in_flight' in knobs:
            seams.POOL_CONN_KNOBS['max_in_flight'] = knobs['max_in_flight']
        if 'orphaned_threshold' in knobs:
            seams.POOL_CONN_KNOBS['orphaned_threshold'] = knobs['orphaned_threshold']
        if 'in_buffer_size' in knobs:
            set_knob(self.M['lr'].LibevConnection, 'in_buffer_size', knobs['in_buffer_size'])
        if 'err_thread_threshold' in knobs:
            set_knob(C, 'CALLBACK_ERR_THREAD_THRESHOLD', knobs['err_thread_threshold'])

    def endpoint(self, i):
        return self.cconn.DefaultEndPoint(self.fc.nodes[i].addr, 9042)

    def use_asyncio_reactor(self):
        """Second real reactor: AsyncioConnection on the virtual-time asyncio loop (dsim.aioloop) instead of LibevConnection."""
        import asyncio
        from dsim import aioloop
        from dsim.core import SimLock
        ar = self.M['ar']
        set_knob(ar.AsyncioConnection, '_lock', SimLock())
        set_knob(ar.AsyncioConnection, '_loop', None)
        set_knob(ar.AsyncioConnection, '_loop_thread', None)
        set_knob(ar.AsyncioConnection, '_socket_impl', self.net.module())
        set_knob(asyncio, 'new_event_loop', aioloop.new_loop)
        set_knob(asyncio, 'set_event_loop', lambda loop: None)
        self.sim.probe('asyncio_reactor')
        return ar.AsyncioConnection

    def make_cluster(self, contact=(0,), protocol_version=4, profile=None, **kw):
        ccl = self.ccl
        if self.plan.get('reactor') == 'asyncio' and 'connection_class' not in kw:
            kw['connection_class'] = self.use_asyncio_reactor()
        args = dict(contact_points=[self.endpoint(i) for i in contact], compression=False,
                    monitor_reporting_enabled=False, executor_threads=kw.pop('executor_threads', 2),
                    connect_timeout=kw.pop('connect_timeout', 5), control_connection_timeout=kw.pop('control_connection_timeout', 2.0),
                    idle_heartbeat_interval=kw.pop('idle_heartbeat_interval', 30),
                    idle_heartbeat_timeout=kw.pop('idle_heartbeat_timeout', 30))
        if protocol_version is not None:
            args['protocol_version'] = protocol_version
        if profile is not None or 'execution_profiles' not in kw:
            prof = profile or {}
            ep = ccl.ExecutionProfile(
                load_balancing_policy=prof.get('lbp') or self.cpol.RoundRobinPolicy(),
                retry_policy=prof.get('retry') or self.cpol.RetryPolicy(),
                request_timeout=prof.get('timeout', 10.0),
                speculative_execution_policy=prof.get('spec'),
                **prof.get('extra', {}))
            args['execution_profiles'] = {ccl.EXEC_PROFILE_DEFAULT: ep}
        args.update(kw)
        self.cluster = ccl.Cluster(**args)
        self.cluster.register_listener(self.recorder)
        return self.cluster

    def spawn(self, fn, name, *args):
        t = SimThread(target=fn, name=name, args=args)
        t.start()
        self.user_threads.append(t)
        return t

    def sleep(self, d):
        self.ccl.time.sleep(d)

    def users_done(self):
        return all(t.state == 'done' for t in self.user_threads)

    def run_until_users_done(self):
        return self.sim.run(until=self.users_done)

    def settle(self, extra=1.0):
        """Let virtual time run `extra` seconds past now (timers, late replies, closes)."""
        end = self.sim.now + extra
        return self.sim.run(until=lambda: self.sim.now >= end)

    def wait_executor_idle(self, limit=60.0):
        """Run until the cluster's executor has nothing queued and every worker is waiting for work (tasks may block for seconds,
        e.g. in borrow_connection(timeout=2.0) behind the very tasks that would free a stream id), at most `limit` seconds."""
        ex = getattr(self.cluster, 'executor', None)
        if ex is None or not hasattr(ex, '_idle'):
            return
        end = self.sim.now + limit
        self.sim.run(until=lambda: (not ex._q and ex._idle >= len([t for t in ex._workers if t.state != 'done'])) or self.sim.now >= end)

    def drain(self, quiet_for=0.0):
        """Run until no environment event is pending and no thread is runnable."""
        sim = self.sim
        return sim.run(until=lambda: not sim.events and all(t.state != 'runnable' for t in sim.threads))

    # ---- observations
    def open_sockets(self):
        return [s for s in self.net.all_socks if not s.closed]

    def pools(self):
        if self.session is None:
            return {}
        return dict((str(h.endpoint.address), p) for h, p in self.session._pools.items())

    def abstract_state(self):
        """Small abstract state used for the 'distinct states' measure."""
        parts = []
        if self.cluster is not None:
            for h in sorted(self.cluster.metadata.all_hosts(), key=lambda h: str(h.endpoint.address)):
                parts.append('%s:%s' % (str(h.endpoint.address)[-1], {True: 'U', False: 'D', None: '?'}[h.is_up]))
        for addr, p in sorted(self.pools().items()):
            c = getattr(p, '_connection', None)
            if c is not None:
                parts.append('p%s:%d/%d%s' % (addr[-1], min(c.in_flight, 5), min(len(c.orphaned_request_ids), 5),
                                              'X' if (c.is_defunct or c.is_closed) else ''))
        return '|'.join(parts)


class ReqObs(object):
    """Observation of one execution: callback/errback invocations with global sequence numbers."""

    def __init__(self, w, rid):
        self.w = w
        self.rid = rid
        self.calls = []          # (seq, vtime, 'cb'|'eb', summary)
        self.t_start = None
        self.seq_start = None
        self.future = None
        self.result = None       # ('ok', summary) | ('err', type name, text)
        self.t_result = None
        self.epoch = 0
        self.excs = []

    @staticmethod
    def summarize(rows):
        if rows is None:
            return []
        try:
            return [(r.rid, r.node, r.seqno) for r in rows]
        except Exception:
            try:
                return [tuple(r) for r in rows]
            except Exception:
                return repr(rows)[:80]

    def on_ok(self, rows):
        sim = self.w.sim
        self.calls.append((sim.nlog, round(sim.vnow(), 6), 'cb', self.summarize(rows), self.epoch))
        sim.rec('req.cb', 'rid=%s' % self.rid)

    def on_err(self, exc):
        sim = self.w.sim
        self.calls.append((sim.nlog, round(sim.vnow(), 6), 'eb', (type(exc).__name__, str(exc)[:160]), self.epoch))
        self.excs.append(exc)
        sim.rec('req.eb', 'rid=%s %s' % (self.rid, type(exc).__name__))

    def start(self, session, stmt, params=None, **kw):
        sim = self.w.sim
        self.t_start = sim.vnow()
        self.seq_start = sim.nlog
        sim.rec('req.start', 'rid=%s' % self.rid)
        f = session.execute_async(stmt, params, **kw)
        self.future = f
        f.add_callbacks(self.on_ok, self.on_err)
        return f

    def wait(self):
        sim = self.w.sim
        try:
            rs = self.future.result()
            self.result = ('ok', self.summarize(rs.current_rows if rs is not None else None))
        except Exception as e:
            self.result = ('err', type(e).__name__, str(e)[:160])
        self.t_result = sim.vnow()
        sim.rec('req.result', 'rid=%s %s' % (self.rid, self.result[0] if self.result[0] == 'ok' else self.result[1]))
        return self.result
