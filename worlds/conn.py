"""W-CONN: one real LibevConnection against a scripted byte-level peer (independent codec)."""
import struct
import zlib

from dsim import seams
from dsim.core import Sim, SimThread
from dsim.net import SimNet
from fakecass import codec as C
from props.common import set_knob

ADDR = '10.0.0.1'


def standin_compress(b):
    """Stand-in for the lz4 wrapper convention: 4-byte big-endian uncompressed length + block."""
    return struct.pack('>i', len(b)) + zlib.compress(bytes(b), 1)


def standin_decompress(b):
    return zlib.decompress(bytes(b[4:]))


def seg_compress(payload):
    return zlib.compress(bytes(payload), 1)


def seg_decompress(enc, unc):
    return zlib.decompress(bytes(enc))


def register_standin_lz4():
    """python-lz4 is not installed: register a zlib stand-in under the name 'lz4' (same wrapper
    convention) on the driver side; the subject under test is framing, not LZ4."""
    cconn = seams.M['cconn']
    from collections import OrderedDict
    d = OrderedDict(cconn.locally_supported_compressions)
    d['lz4'] = (standin_compress, standin_decompress)
    d.move_to_end('lz4', last=False)
    set_knob(cconn, 'locally_supported_compressions', d)
    set_knob(cconn, 'segment_codec_lz4', cconn.SegmentCodec(standin_compress, standin_decompress))


class Peer(object):
    """Server end of one or more connections.  Subclasses override on_request().

    Handles framing for v1-v5 including the switch to checksummed segments after the STARTUP reply
    and optional frame-level compression (v<5) or segment compression (v5).
    """

    def __init__(self, world, versions=(1, 2, 3, 4, 5), compressions=(), auth=None):
        self.world = world
        self.sim = world.sim
        self.versions = set(versions)
        self.compressions = list(compressions)
        self.auth = auth
        self.mode = 'accept'
        self.conns = []
        self.received = []      # (seq, conn label, stream, opcode name, parsed dict)
        self.sent = []          # (seq, conn label, stream, opcode, body)
        self.decode_errors = []

    def connect_mode(self, conn):
        return self.mode

    def accept(self, conn):
        st = PeerConn(self, conn)
        self.conns.append(st)
        return st

    # hooks
    def on_request(self, pc, fr, req):
        """fr: frame dict; req: parsed request dict or None if unparsable."""
        pass

    def on_close(self, pc):
        pass


class PeerConn(object):
    def __init__(self, peer, conn):
        self.peer = peer
        self.conn = conn
        self.frames = C.FrameParser()
        self.segs_in = None         # SegmentParser once segmented
        self.segmented_out = False
        self.compression = None     # negotiated algorithm name
        self.version = None
        self.closed = False
        self.startup_seen = False
        self.requests = 0
        self.raw_in = 0

    # --- inbound
    def on_data(self, conn, data):
        peer = self.peer
        self.raw_in += len(data)
        try:
            if self.segs_in is not None:
                data = self.segs_in.feed(data)
            frames = self.frames.feed(data)
        except C.DecodeError as e:
            peer.decode_errors.append((conn.label, 'framing', str(e)))
            return
        for fr in frames:
            self.requests += 1
            body = fr['body']
            if fr['flags'] & C.FLAG_COMPRESSED:
                try:
                    body = standin_decompress(body)
                except Exception as e:
                    peer.decode_errors.append((conn.label, 'decompress', repr(e)))
                    continue
            try:
                req = C.parse_request(fr['version'], fr['opcode'], body)
            except Exception as e:
                peer.decode_errors.append((conn.label, 'body', '%s op=%s' % (e, fr['opcode'])))
                req = None
            self.version = fr['version']
            peer.sim.rec('peer.recv', '%s s=%d %s' % (conn.label, fr['stream'], C.OPNAMES[fr['opcode']]
                                                     if fr['opcode'] < len(C.OPNAMES) else fr['opcode']))
            peer.received.append((peer.sim.nlog, conn.label, fr['stream'], fr['opcode'], req, fr['flags']))
            peer.on_request(self, fr, req)

    def on_close(self, conn):
        self.closed = True
        self.peer.on_close(self)

    # --- outbound
    def send_frame(self, version, stream, opcode, body, flags=0, compress_body=False, cuts=None, latency=None,
                   force_uncompressed_segment=False, raw=False):
        if compress_body and body:
            body = standin_compress(body)
            flags |= C.FLAG_COMPRESSED
        data = C.frame(version, stream, opcode, body, flags)
        self.send_envelopes([data], cuts=cuts, latency=latency, force_uncompressed_segment=force_uncompressed_segment)
        self.peer.sent.append((self.peer.sim.nlog, self.conn.label, stream, opcode, body))
        self.peer.sim.rec('peer.send', '%s s=%d op=%d %dB' % (self.conn.label, stream, opcode, len(body)))

    def send_envelopes(self, envelopes, cuts=None, latency=None, force_uncompressed_segment=False, coalesce=True):
        """Send already-encoded envelopes; wraps them in segments when the connection is segmented."""
        if not self.segmented_out:
            data = b''.join(envelopes)
            if cuts is None:
                cuts = _frame_cuts(envelopes)
            self.conn.server_send(data, latency=latency, cuts=cuts)
            return
        comp = self.compression is not None
        # small envelopes may share one self-contained segment; large ones are split
        out = []
        pending = b''
        for env in envelopes:
            if len(env) > C.MAX_PAYLOAD:
                if pending:
                    out += C.segments_for(pending, comp, seg_compress, force_uncompressed_segment)
                    pending = b''
                out += C.segments_for(env, comp, seg_compress, force_uncompressed_segment)
            elif coalesce and len(pending) + len(env) <= C.MAX_PAYLOAD:
                pending += env
            else:
                if pending:
                    out += C.segments_for(pending, comp, seg_compress, force_uncompressed_segment)
                pending = env
        if pending:
            out += C.segments_for(pending, comp, seg_compress, force_uncompressed_segment)
        data = b''.join(out)
        self.conn.server_send(data, latency=latency, cuts=_frame_cuts(out))

    def enable_segments(self):
        comp = self.compression is not None
        self.segs_in = C.SegmentParser(comp, seg_decompress)
        self.segmented_out = True


def _frame_cuts(parts):
    cuts = []
    pos = 0
    for p in parts:
        cuts.append(pos + 1)
        cuts.append(pos + 8)
        cuts.append(pos + 9)
        pos += len(p)
        cuts.append(pos)
    return cuts


class HandshakePeer(Peer):
    """Standard handshake (OPTIONS->SUPPORTED, STARTUP->READY / auth exchange, REGISTER->READY);
    everything else is passed to on_query()."""

    def on_request(self, pc, fr, req):
        v, s, op = fr['version'], fr['stream'], fr['opcode']
        if v not in self.versions:
            hv = max(self.versions)
            pc.send_frame(min(hv, 4) if v > hv else hv, s, C.ERROR, C.error_body(
                C.E_PROTOCOL, 'Invalid or unsupported protocol version (%d); supported versions are (%s)'
                % (v, ', '.join('%d/v%d' % (x, x) for x in sorted(self.versions)))))
            return
        if op == C.OPTIONS:
            pc.send_frame(v, s, C.SUPPORTED, C.supported_body(compressions=self.compressions))
        elif op == C.STARTUP:
            pc.startup_seen = True
            comp = (req or {}).get('options', {}).get('COMPRESSION')
            pc.compression = comp
            if self.auth:
                pc.send_frame(v, s, C.AUTHENTICATE, C.w_string(self.auth))
            else:
                pc.send_frame(v, s, C.READY, b'')
            if v >= 5:
                pc.enable_segments()
        elif op == C.AUTH_RESPONSE:
            pc.send_frame(v, s, C.AUTH_SUCCESS, C.w_bytes(None), compress_body=self._cb(pc, v))
        elif op == C.CREDENTIALS:
            pc.send_frame(v, s, C.READY, b'')
        elif op == C.REGISTER:
            pc.send_frame(v, s, C.READY, b'', compress_body=False)
        else:
            self.on_query(pc, fr, req)

    def _cb(self, pc, v):
        return False

    def on_query(self, pc, fr, req):
        pass


class ConnWorld(object):
    def __init__(self, plan, seed, choices=None, horizon=120.0, step_cap=400000, net=None):
        self.plan = plan
        self.sim = Sim(seed, strategy=plan.get('strategy'), step_cap=step_cap, horizon=horizon, choices=choices)
        self.sim.time_jump_p = plan.get('time_jump_p', 0.0)
        if plan.get('stall'):
            self.sim.line_stall = tuple(plan['stall'])
        if plan.get('focus_stall'):
            self.sim.focus_stall = tuple(plan['focus_stall'])
        if plan.get('deep_stalls'):
            ds = {}
            for (fn, rel, secs, hits) in plan['deep_stalls']:
                ds.setdefault(fn, []).append([rel, secs, hits])
            self.sim.deep_stalls = ds
        nk = dict(net or {})
        self.net = SimNet(self.sim, **nk)
        seams.install_run(self.sim, self.net)
        self.M = seams.M
        self.conn_class = self.M['lr'].LibevConnection

    def listen(self, peer, addr=ADDR):
        self.net.listen(addr, peer)

    def endpoint(self, addr=ADDR, port=9042):
        return self.M['cconn'].DefaultEndPoint(addr, port)

    def factory(self, timeout=10.0, **kw):
        self.conn_class.initialize_reactor()
        return self.conn_class.factory(self.endpoint(), timeout, **kw)

    def spawn(self, fn, name, *args):
        t = SimThread(target=fn, name=name, args=args)
        t.start()
        return t

    def loop_alive(self):
        gl = self.M['lr']._global_loop
        return gl is not None and gl._thread is not None and gl._thread.is_alive()
