"""Request-path workload on W-FULL, shared by C14, C15, C16, C17 (and others).

Scripted load-balancing policy (per-request plan), scripted recording retry policy, optional
speculative execution policy, per-request server scripts, connection/node faults.
"""
import re

from dsim.core import HarnessError
from worlds.full import FullWorld, ReqObs, default_cluster_spec

RID_RE = re.compile(r'/\*rid=(\d+)\*/')

RETRY, RETHROW, IGNORE, RETRY_NEXT_HOST = 0, 1, 2, 3
DECISION_NAMES = {0: 'RETRY', 1: 'RETHROW', 2: 'IGNORE', 3: 'RETRY_NEXT_HOST'}
ERR_METHOD = {'read_timeout': 'on_read_timeout', 'write_timeout': 'on_write_timeout', 'unavailable': 'on_unavailable',
              'overloaded': 'on_request_error', 'bootstrapping': 'on_request_error', 'truncate': 'on_request_error',
              'server_error': 'on_request_error'}
ERR_EXC = {'read_timeout': 'ReadTimeout', 'write_timeout': 'WriteTimeout', 'unavailable': 'Unavailable',
           'overloaded': 'OverloadedErrorMessage', 'bootstrapping': 'IsBootstrappingErrorMessage',
           'truncate': 'TruncateError', 'server_error': 'ServerError', 'invalid': 'InvalidRequest',
           'syntax': 'SyntaxException', 'unauthorized': 'Unauthorized'}


def rid_of(query):
    qs = getattr(query, 'query_string', None)
    if qs is None and getattr(query, 'prepared_statement', None) is not None:
        qs = query.prepared_statement.query_string
    if qs is None:
        qs = str(query)
    m = RID_RE.search(qs or '')
    if m:
        return int(m.group(1))
    vals = getattr(query, 'values', None)
    if vals:
        try:
            return int.from_bytes(vals[0], 'big', signed=True)
        except Exception:
            return None
    return None


def make_policies(w, plan):
    """Builds the scripted LBP and retry policy classes against the driver's base classes."""
    cpol = w.cpol
    sim = w.sim

    class ScriptedLBP(cpol.LoadBalancingPolicy):
        def __init__(self):
            cpol.LoadBalancingPolicy.__init__(self)
            self.hosts = {}
            self.calls = []          # (seq, rid, [addresses])
            self.events = []

        def populate(self, cluster, hosts):
            for h in hosts:
                self.hosts[str(h.endpoint.address)] = h

        def distance(self, host):
            return cpol.HostDistance.LOCAL

        def make_query_plan(self, working_keyspace=None, query=None):
            rid = rid_of(query) if query is not None else None
            order = None
            if rid is not None and rid < len(plan['requests']):
                order = plan['requests'][rid].get('plan')
            if order is None:
                order = list(range(len(w.fc.nodes)))
            out = []
            for i in order:
                h = self.hosts.get(w.fc.nodes[i].addr)
                if h is not None:
                    out.append(h)
            self.calls.append((sim.nlog, rid, [str(h.endpoint.address) for h in out]))
            return iter(out)

        def on_up(self, host):
            self.hosts[str(host.endpoint.address)] = host
            self.events.append((sim.nlog, 'up', str(host.endpoint.address)))

        def on_down(self, host):
            self.events.append((sim.nlog, 'down', str(host.endpoint.address)))

        def on_add(self, host):
            self.hosts[str(host.endpoint.address)] = host
            self.events.append((sim.nlog, 'add', str(host.endpoint.address)))

        def on_remove(self, host):
            self.hosts.pop(str(host.endpoint.address), None)
            self.events.append((sim.nlog, 'remove', str(host.endpoint.address)))

    class ScriptedRetry(cpol.RetryPolicy):
        def __init__(self):
            self.calls = []          # dict(seq, rid, method, retry_num, consistency, decision)
            self.count = {}

        def _decide(self, method, query, retry_num, consistency, **kw):
            rid = rid_of(query)
            k = self.count.get(rid, 0)
            self.count[rid] = k + 1
            dec = None
            if rid is not None and rid < len(plan['requests']):
                ds = plan['requests'][rid].get('decisions') or []
                if k < len(ds):
                    dec = tuple(ds[k])
            if dec is None:
                dec = (RETHROW, None)
            self.calls.append({'seq': sim.nlog, 'rid': rid, 'method': method, 'retry_num': retry_num,
                               'consistency': consistency, 'decision': dec, 'error': kw.get('error_name')})
            sim.rec('retry.decision', 'rid=%s %s #%s -> %s/%s' % (rid, method, retry_num, DECISION_NAMES[dec[0]], dec[1]))
            return dec

        def on_read_timeout(self, query, consistency, required_responses, received_responses, data_retrieved, retry_num):
            return self._decide('on_read_timeout', query, retry_num, consistency)

        def on_write_timeout(self, query, consistency, write_type, required_responses, received_responses, retry_num):
            return self._decide('on_write_timeout', query, retry_num, consistency)

        def on_unavailable(self, query, consistency, required_replicas, alive_replicas, retry_num):
            return self._decide('on_unavailable', query, retry_num, consistency)

        def on_request_error(self, query, consistency, error, retry_num):
            return self._decide('on_request_error', query, retry_num, consistency, error_name=type(error).__name__)

    return ScriptedLBP, ScriptedRetry


class ReqPathRun(object):
    def __init__(self, plan, seed, choices=None, horizon=150.0, step_cap=2000000, line_funcs=None):
        self.plan = plan
        w = self.w = FullWorld(plan, seed, choices, horizon=horizon, step_cap=step_cap)
        sim = w.sim
        LBP, Retry = make_policies(w, plan)
        self.lbp = LBP()
        self.retry = Retry()
        self.obs = {}
        self.extra_obs = []          # (rid, ReqObs) callbacks added late from another thread
        self.connect_error = None
        self.st = {'started': False}
        ex = plan.get('exec', {})
        spec = None
        if ex.get('spec'):
            spec = w.cpol.ConstantSpeculativeExecutionPolicy(ex['spec']['delay'], ex['spec']['max'])
        self.profile = {'lbp': self.lbp, 'retry': self.retry, 'timeout': ex.get('default_timeout', 10.0), 'spec': spec}
        for i, r in enumerate(plan['requests']):
            if r.get('scripts'):
                w.fc.scripts[i] = [dict(b) for b in r['scripts']]
        if line_funcs and (plan.get('line_p') or plan.get('points') or plan.get('focus_stall') or plan.get('deep_stalls')):
            sim.enable_line_preemption(line_funcs(w), p=plan.get('line_p', 0), points=plan.get('points', 0),
                                       est_lines=80 * (len(plan['requests']) + 1))

    # ------------------------------------------------------------------ threads
    def statement(self, i, r):
        q = "SELECT * FROM ks1.t /*rid=%d*/" % i
        kw = {'is_idempotent': bool(r.get('idempotent'))}
        if r.get('fetch_size') is not None:
            kw['fetch_size'] = r['fetch_size']
        if r.get('consistency') is not None:
            kw['consistency_level'] = r['consistency']
        return self.w.M['cq'].SimpleStatement(q, **kw)

    def main(self):
        w, plan = self.w, self.plan
        ex = plan.get('exec', {})
        extra = {}
        if plan.get('never_convict'):
            # a conviction policy that never marks a host down on a connection failure (a documented extension point): pools stay
            # installed with no open connection while their replacement is pending
            class NeverConvict(w.cpol.ConvictionPolicy):
                def add_failure(self, connection_exc):
                    return False

                def reset(self):
                    pass
            extra['conviction_policy_factory'] = NeverConvict
            w.sim.probe('never_convict_policy')
        w.sim.stalls_armed = False         # thread-stall faults begin once the session is connected
        try:
            cluster = w.make_cluster(contact=tuple(plan.get('contact', (0,))), protocol_version=plan.get('version', 4),
                                     profile=self.profile, executor_threads=ex.get('executor_threads', 2),
                                     idle_heartbeat_interval=0, reconnection_policy=w.cpol.ConstantReconnectionPolicy(
                                         ex.get('reconnect_delay', 1.0), max_attempts=None),
                                     **dict(plan.get('cluster_kw', {}), **extra))
            for k_, v_ in plan.get('cluster_attrs', {}).items():
                setattr(cluster, k_, v_)
            pv2 = plan.get('pool_v2')
            if pv2 and plan.get('version', 4) < 3:
                # protocol 1/2: HostConnectionPool with several connections per host, grown and trashed by load
                L = w.cpol.HostDistance.LOCAL
                cluster.set_min_requests_per_connection(L, pv2['min_req'])      # (each setter validates against the other's current value)
                cluster.set_max_requests_per_connection(L, pv2['max_req'])
                cluster.set_max_connections_per_host(L, pv2['max'])
                cluster.set_core_connections_per_host(L, pv2['core'])
                w.sim.probe('host_connection_pool_v2')
            session = cluster.connect(plan.get('session_keyspace'), wait_for_all_pools=True)
        except Exception as e:
            self.connect_error = repr(e)
            return
        if plan.get('use_delay'):
            # from now on nodes take their time to answer USE (replacement connections of a session with a keyspace)
            for nd in w.fc.nodes:
                nd.use_delay = plan['use_delay']
        w.session = session
        sim = w.sim
        sim.stalls_armed = True
        self.st['started'] = True
        self.st['t_connected'] = sim.vnow()
        for f in plan.get('faults', []):
            sim.at(f['at'], (lambda f=f: self.apply_fault(f)), 'fault %s n%s' % (f['kind'], f.get('node')))
        nthreads = plan.get('nthreads', 1)
        ts = [w.spawn(self.user, 'user%d' % t, t) for t in range(nthreads)]
        for la in plan.get('late_adders', []):
            w.spawn(self.late_adder, 'adder', la)
        for t in ts:
            t.join()

    def apply_fault(self, f):
        fc = self.w.fc
        k = f['kind']
        if k == 'rst_pool':
            fc.rst_conns(f['node'], 'pool')
        elif k == 'rst_all':
            fc.rst_conns(f['node'], 'all')
        elif k == 'crash':
            fc.crash(f['node'], how=f.get('how', 'rst'), announce=f.get('announce'))
            rto = self.plan.get('tcp_rto')
            if rto and f.get('how') == 'blackhole':
                # a black-holed peer never answers, but TCP does not wait for ever: unacknowledged data is retransmitted until the
                # kernel gives up and errors the connection (tcp_retries2); without this an untimed driver wait would have no end
                self.w.sim.at(rto, (lambda i=f['node']: fc.rst_conns(i, 'all')), 'tcp retransmission timeout n%d' % f['node'])
        elif k == 'restart':
            fc.restart(f['node'], announce=f.get('announce'))
        elif k == 'choke':
            # the node stops reading from its pooled connections: their send buffers are full from now on (EAGAIN -> ConnectionBusy)
            for nc in fc.nodes[f['node']].conns:
                if not nc.events and not nc.closed:
                    nc.conn.sock.room_left = 0
                    nc.conn.sock.force_eagain = True
            self.w.sim.rec('fault', 'send buffer full n%d' % f['node'])
            self.w.net.count('send_buffer_full')
        elif k == 'stall':
            fc.nodes[f['node']].set_stalled(True)
        elif k == 'unstall':
            fc.nodes[f['node']].set_stalled(False)

    def user(self, tid):
        w, plan = self.w, self.plan
        mine = []
        for i, r in enumerate(plan['requests']):
            if r.get('thread', 0) != tid:
                continue
            if r.get('start_at'):
                d = self.st['t_connected'] + r['start_at'] - w.sim.vnow()
                if d > 0:
                    w.sleep(d)
            o = self.obs[i] = ReqObs(w, i)
            kw = {}
            if 'timeout' in r:
                kw['timeout'] = r['timeout']
            if r.get('target') is not None:
                kw['host'] = self.lbp.hosts.get(w.fc.nodes[r['target']].addr)
            try:
                o.start(w.session, self.statement(i, r), **kw)
                mine.append(o)
            except Exception as e:
                o.result = ('err', type(e).__name__, str(e)[:160])
                o.sync_raise = True
            if r.get('think'):
                w.sleep(r['think'])
            if r.get('sync'):
                o.wait()
        for o in mine:
            if o.result is None:
                o.wait()

    def late_adder(self, la):
        w = self.w
        w.sleep(la['at'])
        o = self.obs.get(la['rid'])
        if o is None or o.future is None:
            return
        x = ReqObs(w, la['rid'])
        x.late = True
        self.extra_obs.append((la['rid'], x))
        o.future.add_callbacks(x.on_ok, x.on_err)

    # ------------------------------------------------------------------ run
    def run(self, settle=3.0):
        w = self.w
        w.spawn(self.main, 'main')
        status = w.run_until_users_done()
        if self.connect_error:
            raise HarnessError('connect failed: %s' % self.connect_error)
        if status == 'done':
            w.settle(settle)
        self.status = status
        return status

    def node_entries(self, rid):
        return [e for e in self.w.fc.all_logs() if e.get('rid') == rid and e.get('kind')]


def base_plan(rng, nodes=None, version=None, legacy_p=0.0):
    n = nodes or rng.choice([1, 2, 3, 4])
    v = version or rng.choice([3, 4, 4, 5])
    spec = default_cluster_spec(n, versions=(3, 4, 5))
    p = {'cluster': spec, 'version': v, 'contact': [0], 'requests': [], 'faults': [], 'nthreads': 1, 'exec': {}}
    if version is None and legacy_p and rng.random() < legacy_p:
        make_legacy(p, rng)
    if rng.random() < 0.12:
        p['reactor'] = 'asyncio'        # the second real reactor (AsyncioConnection on the virtual-time asyncio loop)
    return p


def make_legacy(p, rng):
    """Protocol 2 (or 1) against a Cassandra 2.1 personality: the session uses HostConnectionPool (several connections per host)."""
    p['version'] = rng.choice([2, 2, 1])
    for nd in p['cluster']['nodes']:
        nd['release'] = '2.1.15'
        nd['versions'] = [1, 2, 3]
    core = rng.choice([1, 1, 2])
    mx = rng.choice([core, core + 1, core + 2])
    max_req = rng.choice([2, 3, 5, 10])
    p['pool_v2'] = {'core': core, 'max': mx, 'max_req': max_req, 'min_req': rng.randrange(0, max_req)}
    return p
