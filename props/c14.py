"""C14 Every request completes exactly once (W-FULL)."""
from dsim import seams
from props.common import gen_stalls, gen_strategy, quiet_logging, Violations
from dsim.core import Deadlock
from worlds.reqpath import ReqPathRun, base_plan, RETRY, RETHROW, IGNORE, RETRY_NEXT_HOST

ID = 'C14'
TIERS = {'quick': {'runs': 12000, 'budget_s': 55, 'wall_cap': 90, 'block': 60},
         'thorough': {'runs': 400000, 'budget_s': 840, 'wall_cap': 90, 'block': 60}}
SHRINK_LISTS = ['requests', 'faults', 'late_adders']
COVERAGE_RULE = ('one run = real Cluster/Session over 1-4 fake nodes, scripted query plans and retry decisions, optional '
                 'ConstantSpeculativeExecutionPolicy, 1-12 statements (idempotent or not, timeouts 0.05-2 s) with server '
                 'scripts ok/late/drop/error/close/void/schema-change, connection RSTs, callbacks added late from another '
                 'thread, line-level pre-emption inside ResponseFuture; distinct = event-log digest; non-trivial = some '
                 'request saw more than one server reply, a retry, a client timeout or a connection failure')
RULES = {
    'C14/at-most-once': 'per execution: callbacks and errbacks together are invoked at most once (per registered pair)',
    'C14/delivered': 'at quiescence (timeout elapsed or every attempt answered/failed) exactly one invocation happened',
    'C14/result-agrees': 'result() reports the same outcome the callbacks saw',
    'C14/no-hang': 'result() returns by the horizon when a finite timeout applies',
}
WORLD_INFO = {'real': ['Cluster, Session, ResponseFuture (all of it), ResultSet, pools, Connection, LibevConnection, policies base classes'],
              'stub': ['libev C binding', 'sockets/TCP', 'ThreadPoolExecutor', 'fake Cassandra nodes', 'scripted LBP/retry policy (harness subclasses)']}
ASSUMPTIONS = ['page fetches are exercised in C18/C15; here each statement is one epoch']
REQUIRED_PROBES = ['second_response_after_final', 'client_timeout', 'retry_performed', 'late_callback_added', 'connection_failure',
                   'requests_with_no_connection_left']

ERRS = ['read_timeout', 'write_timeout', 'unavailable', 'overloaded', 'bootstrapping', 'truncate', 'server_error', 'invalid']


def prepare():
    seams.install_static()
    quiet_logging()


def gen_behaviour(rng):
    k = rng.random()
    if k < 0.45:
        return {'kind': 'ok', 'delay': rng.choice([0.001, 0.02, 0.06, 0.15, 0.3])}
    if k < 0.55:
        return {'kind': 'drop'}
    if k < 0.85:
        return {'kind': 'error', 'error': rng.choice(ERRS), 'delay': rng.choice([0.001, 0.02, 0.1])}
    if k < 0.92:
        return {'kind': 'close', 'delay': rng.choice([0.001, 0.03])}
    if k < 0.97:
        return {'kind': 'void', 'delay': rng.choice([0.001, 0.05])}
    return {'kind': 'schema_change', 'delay': 0.002}


def gen_plan(rng, tier):
    p = base_plan(rng)
    n = len(p['cluster']['nodes'])
    p['nthreads'] = rng.choice([1, 1, 2, 3])
    nreq = rng.choice([1, 2, 3, 5, 8, 12])
    spec = None
    if rng.random() < 0.5:
        spec = {'delay': rng.choice([0.01, 0.05, 0.1]), 'max': rng.choice([1, 2, 3])}
    p['exec'] = {'spec': spec, 'executor_threads': rng.choice([1, 2, 4]), 'default_timeout': 10.0}
    for i in range(nreq):
        order = list(range(n))
        rng.shuffle(order)
        p['requests'].append({
            'thread': rng.randrange(p['nthreads']), 'plan': order, 'idempotent': rng.random() < 0.6,
            'timeout': rng.choice([0.05, 0.1, 0.2, 0.5, 2.0]),
            'scripts': [gen_behaviour(rng) for _ in range(rng.choice([1, 1, 2, 3, 4]))],
            'decisions': [[rng.choice([RETRY, RETRY, RETRY_NEXT_HOST, RETHROW, IGNORE]), rng.choice([None, None, 1, 4])]
                          for _ in range(rng.choice([0, 1, 2, 3]))],
            'think': rng.choice([0, 0, 0.005, 0.05])})
    for _ in range(rng.choice([0, 0, 1, 2])):
        p['faults'].append({'at': rng.choice([0.005, 0.03, 0.08, 0.2]), 'kind': 'rst_pool', 'node': rng.randrange(n)})
    p['late_adders'] = [{'rid': rng.randrange(nreq), 'at': rng.choice([0.0, 0.01, 0.05, 0.12, 0.3, 1.0])}
                        for _ in range(rng.choice([0, 1, 2]))]
    p.update(strategy=gen_strategy(rng), line_p=rng.choice([0, 0, 0.005, 0.03]), points=rng.choice([0, 2, 4]),
             time_jump_p=rng.choice([0, 0, 0.05]))
    p.update(gen_stalls(rng, ['_set_result', '_set_final_result', '_set_final_exception', '_on_timeout', '_on_speculative_execute',
                              'add_callback', 'add_errback', '_retry_task', 'send_request'], 0.25))
    if rng.random() < 0.06:
        # every node is gone (and reconnection is far away) before the first request: no connection is left, the reactor has
        # nothing to watch; the requests have short timeouts and the thread sending them is descheduled inside send_request/_query
        # for longer than that, so the timeout is noticed before any connection was borrowed
        p['faults'] = [{'at': 0.02, 'kind': 'crash', 'node': i, 'how': 'rst'} for i in range(n)]
        p['exec']['reconnect_delay'] = 500.0
        p['late_adders'] = []
        for r in p['requests']:
            r['start_at'] = round(0.1 + rng.choice([0.0, 0.05, 0.3]), 3)
            r['timeout'] = rng.choice([0.03, 0.05, 0.1])
        p['focus_stall'] = [rng.choice(['send_request', '_query']), 1.0, rng.choice([0.2, 0.5]), rng.randrange(1, 14), rng.choice([1, 2, 4])]
        p.pop('stall', None)
        p['all_gone'] = True
    return p


def line_funcs(w):
    RF = w.ccl.ResponseFuture
    return [RF._set_result, RF._set_final_result, RF._set_final_exception, RF._on_timeout, RF._on_speculative_execute,
            RF.add_callback, RF.add_errback, RF._cancel_timer, RF._retry_task, RF.send_request, RF._query]


def classify(run, rid, calls):
    replies = [r for n in run.w.fc.nodes for r in n.replies if r['rid'] == rid]
    if any(c[2] == 'eb' and c[3][0] == 'OperationTimedOut' for c in calls):
        return 'timeout-race'
    if len(replies) >= 2:
        return 'several-server-replies'
    return 'other'


def run_plan(plan, seed, choices=None):
    run = ReqPathRun(plan, seed, choices, line_funcs=line_funcs)
    w, sim = run.w, run.w.sim
    try:
        status = run.run(settle=3.0)
    except Deadlock as e:
        # every thread is blocked for good and no timer or event is left: the requests still waited for can never complete
        status = 'deadlock: %s' % e
    V = Violations()
    if plan.get('all_gone'):
        sim.probe('requests_with_no_connection_left')
    nontrivial = False
    all_obs = [(i, o, False) for i, o in sorted(run.obs.items())] + [(i, o, True) for i, o in run.extra_obs]
    for i, o, late in all_obs:
        calls = o.calls
        V.check('C14/at-most-once')
        if len(calls) > 1:
            kinds = [c[2] for c in calls]
            what = 'both-kinds' if len(set(kinds)) > 1 else ('callback-twice' if kinds[0] == 'cb' else 'errback-twice')
            V.add('C14/at-most-once', '%s:%s' % (what, classify(run, i, calls)),
                  'request %d%s: %d invocations %r' % (i, ' (late-added callbacks)' if late else '', len(calls),
                                                        [(c[1], c[2], c[3] if c[2] == 'eb' else 'rows') for c in calls]))
    for i, o in sorted(run.obs.items()):
        r = plan['requests'][i]
        if getattr(o, 'sync_raise', False):
            continue
        replies = [x for n in w.fc.nodes for x in n.replies if x['rid'] == i]
        if len(replies) >= 2:
            sim.probe('second_response_after_final')
            nontrivial = True
        V.check('C14/no-hang')
        if o.result is None:
            V.add('C14/no-hang', 'result-hang', 'result() of request %d (timeout %s) had not returned at the horizon (status %s)'
                  % (i, r.get('timeout'), status))
            continue
        V.check('C14/delivered')
        if len(o.calls) == 0:
            V.add('C14/delivered', 'no-callback', 'request %d: result() returned %r but neither callback nor errback ran' % (i, o.result[:2]))
            continue
        c = o.calls[0]
        V.check('C14/result-agrees')
        if len(o.calls) == 1:
            if c[2] == 'cb' and (o.result[0] != 'ok' or o.result[1] != c[3]):
                V.add('C14/result-agrees', 'result-differs', 'request %d: callback saw %r, result() gave %r' % (i, c[3], o.result))
            if c[2] == 'eb' and (o.result[0] != 'err' or o.result[1] != c[3][0]):
                V.add('C14/result-agrees', 'result-differs', 'request %d: errback saw %r, result() gave %r' % (i, c[3], o.result))
        if c[2] == 'eb' and c[3][0] == 'OperationTimedOut':
            sim.probe('client_timeout')
            nontrivial = True
    for i, o in run.extra_obs:
        sim.probe('late_callback_added')
        base = run.obs.get(i)
        if base is not None and base.result is not None and len(o.calls) == 0 and status == 'done':
            V.check('C14/delivered')
            V.add('C14/delivered', 'late-callback-never-ran', 'callbacks added to request %d from another thread never ran although it completed' % i)
    if run.retry.calls:
        sim.probe('retry_performed', len([c for c in run.retry.calls if c['decision'][0] in (RETRY, RETRY_NEXT_HOST)]))
        nontrivial = True
    if w.net.fault_counts.get('rst'):
        sim.probe('connection_failure')
        nontrivial = True
    for cr in sim.crashes:
        V.add('C14/delivered', 'thread-exception', 'thread %s died: %s' % (cr[0], cr[1]))
    return {'violations': V.items, 'rules_checked': V.checked, 'nontrivial': nontrivial,
            'faults': dict(w.net.fault_counts), 'states': [w.abstract_state()],
            'summary': {'status': status, 'requests': len(run.obs)},
            'stratum': 'spec' if plan['exec'].get('spec') else 'nospec'}
