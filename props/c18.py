"""C18 Paged results yield every row exactly once, in order (W-FULL)."""
from dsim import seams
from props.common import gen_strategy, quiet_logging, Violations
from worlds.reqpath import ReqPathRun, base_plan, RETRY, RETRY_NEXT_HOST, RETHROW

ID = 'C18'
TIERS = {'quick': {'runs': 12000, 'budget_s': 55, 'wall_cap': 120, 'block': 60},
         'thorough': {'runs': 400000, 'budget_s': 840, 'wall_cap': 120, 'block': 60}}
SHRINK_LISTS = ['requests']
COVERAGE_RULE = ('one run = real Session/ResponseFuture/ResultSet over 1-3 fake nodes; one page-size list (up to 8 pages, '
                 'empty first/middle/last pages and runs of empty pages) served with unique paging-state tokens; 1-4 '
                 'statements over that list, each consumed with a different access pattern (for-loop, list(), all(), manual '
                 'fetch_next_page + current_rows, one() then iterate, equality/index list mode, break + fetch_next_page + '
                 'iterate); optionally a page request is answered with an error and a RETRY decision, or a speculative '
                 'policy races attempts; distinct = event-log digest; non-trivial = at least 2 pages and an empty page or a '
                 'retried page or a non-default access pattern')
RULES = {
    'C18/rows': 'the consumer sees exactly the concatenation of the pages it asked for, in server order, each row once',
    'C18/state': 'page request k carries the paging state returned with page k-1',
    'C18/stop': 'no page request is sent after a page without paging state',
    'C18/agree': 'all access patterns over the same script agree',
}
WORLD_INFO = {'real': ['ResultSet (all access paths)', 'ResponseFuture.start_fetching_next_page/_set_result/_paging_state',
                       'Session.execute, QueryMessage paging fields, ProtocolHandler'],
              'stub': ['libev C binding', 'sockets/TCP', 'ThreadPoolExecutor', 'fake nodes (independent decode of paging state / page size)']}
ASSUMPTIONS = ['break+fetch_next_page+iterate is expected to yield the manually fetched page and everything after it '
               '(the behaviour of ResultSet.__iter__, which restarts at the current page)']
REQUIRED_PROBES = ['page_fetch_failed_then_retried_by_caller', 'empty_page', 'consecutive_empty_pages', 'page_retried', 'pattern_manual', 'pattern_listmode',
                   'pattern_break_fetch_iter', 'speculative_paging']

PATTERNS = ['for', 'list', 'all', 'manual', 'one_then_iter', 'listmode_eq', 'listmode_index', 'break_fetch_iter']


def prepare():
    seams.install_static()
    quiet_logging()


def gen_pages(rng):
    n = rng.choice([1, 2, 3, 4, 5, 8])
    mode = rng.choice(['plain', 'empties', 'runs'])
    if mode == 'plain':
        return [rng.choice([1, 2, 3]) for _ in range(n)]
    if mode == 'empties':
        return [rng.choice([0, 0, 1, 2, 3]) for _ in range(n)]
    out = []
    while len(out) < n:
        out += [0] * rng.choice([1, 2, 3, 4])
        out.append(rng.choice([1, 2]))
    return out[:max(n, 2)]


def gen_plan(rng, tier):
    p = base_plan(rng, nodes=rng.choice([1, 2, 3]))
    n = len(p['cluster']['nodes'])
    pages = gen_pages(rng)
    spec = None
    if n > 1 and rng.random() < 0.2:
        spec = {'delay': rng.choice([0.01, 0.03]), 'max': 1}
    p['exec'] = {'spec': spec, 'executor_threads': 2, 'default_timeout': 8.0}
    p['pages'] = pages
    p['nthreads'] = 1
    nst = rng.choice([1, 2, 3, 4])
    pats = rng.sample(PATTERNS, nst)
    faulted = rng.random() < 0.3
    for i in range(nst):
        order = list(range(n))
        rng.shuffle(order)
        sc = []
        for k in range(len(pages)):
            if faulted and rng.random() < 0.3:
                sc.append({'kind': 'error', 'error': rng.choice(['read_timeout', 'overloaded', 'unavailable']), 'delay': 0.003})
            sc.append({'kind': 'ok', 'pages': pages, 'delay': rng.choice([0.002, 0.02]) if not spec else rng.choice([0.002, 0.05])})
        p['requests'].append({'thread': 0, 'plan': order, 'idempotent': True, 'scripts': sc, 'fetch_size': rng.choice([1, 2, 5000]),
                              'decisions': [[RETRY, None] for _ in range(len(pages) + 2)],
                              'pattern': pats[i], 'take': rng.choice([0, 1, 1, 2])})
    if rng.random() < 0.25:
        # a page fetch that fails towards the caller (policy says RETHROW), who then fetches again: the first page must succeed
        # (execute() itself would raise), any later page may fail once or twice
        order = list(range(n))
        rng.shuffle(order)
        sc = [{'kind': 'ok', 'pages': pages, 'delay': 0.002}]
        for k in range(1, len(pages)):
            for _ in range(rng.choice([0, 1, 1, 2])):
                sc.append({'kind': 'error', 'error': rng.choice(['read_timeout', 'overloaded', 'unavailable']), 'delay': 0.003})
            sc.append({'kind': 'ok', 'pages': pages, 'delay': 0.002})
        p['requests'].append({'thread': 0, 'plan': order, 'idempotent': True, 'scripts': sc, 'fetch_size': rng.choice([1, 2, 5000]),
                              'decisions': [[RETHROW, None] for _ in range(2 * len(pages) + 2)], 'pattern': 'manual_retry', 'take': 0})
        p['exec']['spec'] = None
    p.update(strategy=gen_strategy(rng), line_p=0, points=0, time_jump_p=0)
    return p


def consume(w, session, stmt, pattern, take, expected_all, pages):
    """Returns (seqnos seen, expected seqnos) for this access pattern."""
    rs = session.execute(stmt, timeout=8.0)
    if pattern == 'for':
        return [r.seqno for r in rs], expected_all
    if pattern == 'list':
        return [r.seqno for r in list(rs)], expected_all
    if pattern == 'all':
        return [r.seqno for r in rs.all()], expected_all
    if pattern == 'manual':
        rows = [r.seqno for r in rs.current_rows]
        guard = 0
        while rs.has_more_pages and guard < 50:
            rs.fetch_next_page()
            rows += [r.seqno for r in rs.current_rows]
            guard += 1
        return rows, expected_all
    if pattern == 'manual_retry':
        # the application catches a failed page fetch and asks for the same page again
        rows = [r.seqno for r in rs.current_rows]
        guard = 0
        while rs.has_more_pages and guard < 80:
            guard += 1
            try:
                rs.fetch_next_page()
            except Exception:
                w.sim.probe('page_fetch_failed_then_retried_by_caller')
                continue
            rows += [r.seqno for r in rs.current_rows]
        return rows, expected_all
    if pattern == 'one_then_iter':
        first = rs.one()
        rows = [r.seqno for r in rs]
        if pages and pages[0] > 0 and (first is None or first.seqno != 0):
            rows = ['one() returned %r' % (first,)] + rows
        return rows, expected_all
    if pattern == 'listmode_eq':
        same = (rs == 'sentinel-not-equal')
        rows = [r.seqno for r in rs]
        return rows, expected_all
    if pattern == 'listmode_index':
        rows = []
        k = 0
        while True:
            try:
                rows.append(rs[k].seqno)
            except IndexError:
                break
            k += 1
            if k > 200:
                break
        return rows, expected_all
    if pattern == 'break_fetch_iter':
        it = iter(rs)
        got = []
        lim = min(take, pages[0] if pages else 0)
        for _ in range(lim):
            got.append(next(it).seqno)
        if not rs.has_more_pages:
            rest = [r.seqno for r in rs]
            return got + rest, expected_all[:lim] + expected_all
        rs.fetch_next_page()
        rest = [r.seqno for r in rs]
        skip = pages[0]
        return got + rest, expected_all[:lim] + expected_all[skip:]
    raise ValueError(pattern)


def run_plan(plan, seed, choices=None):
    run = ReqPathRun(plan, seed, choices, horizon=90.0)
    w, sim = run.w, run.w.sim
    pages = plan['pages']
    expected_all = list(range(sum(pages)))
    results = {}

    def user(tid):
        for i, r in enumerate(plan['requests']):
            stmt = run.statement(i, r)
            sim.rec('consume.start', 'rid=%d %s' % (i, r['pattern']))
            try:
                results[i] = consume(w, w.session, stmt, r['pattern'], r['take'], expected_all, pages)
            except Exception as e:
                results[i] = ('exception', '%s: %s' % (type(e).__name__, str(e)[:200]))
            sim.rec('consume.done', 'rid=%d' % i)
            sim.probe('pattern_' + ('listmode' if r['pattern'].startswith('listmode') else r['pattern']))
    run.user = user
    status = run.run(settle=0.5)
    V = Violations()
    spec = bool(plan['exec'].get('spec'))
    retried = bool(run.retry.calls)
    rst = bool(w.net.fault_counts.get('rst'))
    if any(x == 0 for x in pages):
        sim.probe('empty_page')
    if any(pages[k] == 0 and pages[k + 1] == 0 for k in range(len(pages) - 1)):
        sim.probe('consecutive_empty_pages')
    if retried:
        sim.probe('page_retried')
    if spec:
        sim.probe('speculative_paging')
    seen_lists = []
    for i, r in enumerate(plan['requests']):
        res = results.get(i)
        V.check('C18/rows')
        if res is None:
            V.add('C18/rows', 'consumer-hung', 'statement %d (%s) had not finished at the horizon (status %s)' % (i, r['pattern'], status))
            continue
        if res[0] == 'exception':
            V.add('C18/rows', 'rows-wrong:speculative-attempts-overlap-pages' if spec else 'consumer-exception:' + r['pattern'], 'statement %d (%s) raised %s' % (i, r['pattern'], res[1]))
            continue
        got, want = res
        if got != want:
            kind = 'duplicated' if len(got) > len(set(map(str, got))) else ('missing' if len(got) < len(want) else 'different')
            V.add('C18/rows', 'rows-wrong:speculative-attempts-overlap-pages' if spec else 'rows-%s:%s' % (kind, r['pattern']),
                  'statement %d (%s) over pages %r saw %r, expected %r' % (i, r['pattern'], pages, got[:30], want[:30]))
        if r['pattern'] not in ('break_fetch_iter',):
            seen_lists.append((r['pattern'], got))
        # node-side: paging state chain and stop
        entries = sorted(run.node_entries(i), key=lambda e: e['sent_seq'])
        if not spec:
            V.check('C18/state')
            k_expected = 0
            for e in entries:
                ps = e.get('paging_state')
                k = int(ps.decode().split('-')[-1]) if ps else 0
                if ps and not ps.decode().startswith('ps-%d-' % i):
                    V.add('C18/state', 'foreign-paging-state', 'statement %d sent paging state %r' % (i, ps))
                if k not in (k_expected, k_expected - 1) and not (k == k_expected - 1):
                    if k != k_expected:
                        V.add('C18/state', 'wrong-paging-state', 'statement %d: page request carried state for page %d, expected page %d'
                              % (i, k, k_expected))
                        break
                if e.get('behaviour') == 'ok':
                    k_expected = k + 1
            V.check('C18/stop')
            okreq = [e for e in entries if e.get('behaviour') == 'ok']
            if len(okreq) > len(pages):
                V.add('C18/stop', 'request-after-last-page', 'statement %d: %d successful page requests for %d pages' % (i, len(okreq), len(pages)))
    V.check('C18/agree')
    if len(set(tuple(map(str, g)) for _, g in seen_lists)) > 1 and not V.items:
        V.add('C18/agree', 'patterns-disagree', 'access patterns disagree: %r' % ([(p_, g[:12]) for p_, g in seen_lists],))
    for cr in sim.crashes:
        V.add('C18/rows', 'thread-exception', 'thread %s died: %s' % (cr[0], cr[1]))
    nontrivial = len(pages) >= 2 and (any(x == 0 for x in pages) or retried or
                                      any(r['pattern'] not in ('for', 'list') for r in plan['requests']))
    return {'violations': V.items, 'rules_checked': V.checked, 'nontrivial': bool(nontrivial),
            'faults': dict(w.net.fault_counts), 'summary': {'status': status, 'pages': pages},
            'stratum': 'spec' if spec else ('retried' if retried else 'plain')}
