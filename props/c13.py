"""C13 Replacing an overloaded connection never abandons live requests (W-FULL, small-capacity knobs)."""
from dsim import seams
from props.common import gen_strategy, quiet_logging, Violations, line_offset
from props.c12 import PoolRun
from worlds.reqpath import base_plan, RETHROW

ID = 'C13'
TIERS = {'quick': {'runs': 9000, 'budget_s': 55, 'wall_cap': 120, 'block': 50},
         'thorough': {'runs': 300000, 'budget_s': 840, 'wall_cap': 120, 'block': 50}}
SHRINK_LISTS = ['requests', 'faults']
COVERAGE_RULE = ('one run = real HostConnection pool over 1-2 fake nodes with orphaned_threshold 1-4 and max_in_flight 8-32: '
                 'k statements time out client-side (the node drops them or answers late) until the threshold is reached, '
                 'while further statements with long timeouts are in flight; the replacement connect is fast / slow / refused '
                 'for a while; live requests on the old connection end by reply or by client timeout; no connection fault is '
                 'injected; distinct = event-log digest; non-trivial = a replacement happened while a non-orphaned request '
                 'was outstanding on the old connection')
RULES = {
    'C13/no-abandon': 'no request fails with a connection-closed error (no fault was injected): the old connection is never closed while a non-orphaned request awaits its response',
    'C13/moves': 'requests started after the replacement became visible at the node arrive on the new connection',
    'C13/eventually-closed': 'once only orphaned streams remain, the replaced connection is closed (by the end of the liveness window)',
    'C13/single-replacement': 'at most one replacement connect is in progress per node at any step',
}
WORLD_INFO = {'real': ['HostConnection.borrow_connection/return_connection/_replace/_trash/on_orphaned_stream_released',
                       'ResponseFuture._on_timeout (orphaning)', 'Connection.process_msg orphan release'],
              'stub': ['libev C binding', 'sockets/TCP (socket log is the close oracle)', 'ThreadPoolExecutor', 'fake nodes']}
ASSUMPTIONS = ['liveness window: 6 virtual seconds after the last request finished']
REQUIRED_PROBES = ['replacement_with_live_requests', 'old_connection_trashed_then_closed', 'live_request_timed_out_on_old_connection',
                   'replacement_refused_then_retried', 'late_reply_on_orphaned_stream']


def prepare():
    seams.install_static()
    quiet_logging()


def gen_plan(rng, tier):
    p = base_plan(rng, nodes=rng.choice([1, 1, 2]))
    n = len(p['cluster']['nodes'])
    thr = rng.choice([1, 2, 3, 4])
    p['knobs'] = {'max_in_flight': rng.choice([8, 16, 32]), 'orphaned_threshold': thr}
    p['exec'] = {'spec': None, 'executor_threads': rng.choice([1, 2, 4]), 'default_timeout': 5.0, 'reconnect_delay': 0.5}
    p['nthreads'] = rng.choice([1, 2])
    t = 0.0
    # phase 1: live long-running requests, then orphans up to the threshold, then more traffic
    nlive = rng.choice([0, 1, 2, 3])
    for i in range(nlive):
        end = rng.choice(['reply', 'reply', 'timeout'])
        if end == 'reply':
            sc, timeout = {'kind': 'ok', 'delay': rng.choice([0.3, 0.6, 1.2])}, 4.0
        else:
            sc, timeout = {'kind': 'drop'}, rng.choice([0.5, 1.0])
        p['requests'].append({'thread': 0, 'plan': [0] + list(range(1, n)), 'idempotent': True, 'timeout': timeout,
                              'scripts': [sc], 'think': 0.002, 'role': 'live', 'decisions': [[RETHROW, None]]})
    for i in range(thr + rng.choice([0, 0, 1])):
        sc = rng.choice([{'kind': 'drop'}, {'kind': 'ok', 'delay': rng.choice([0.4, 1.0, 2.5])}])
        p['requests'].append({'thread': 0, 'plan': [0] + list(range(1, n)), 'idempotent': True, 'timeout': rng.choice([0.03, 0.08]),
                              'scripts': [sc], 'think': rng.choice([0, 0.01]), 'role': 'orphan', 'decisions': [[RETHROW, None]]})
    for i in range(rng.choice([2, 4, 8])):
        p['requests'].append({'thread': rng.randrange(p['nthreads']), 'plan': [0] + list(range(1, n)), 'idempotent': True,
                              'timeout': 4.0, 'scripts': [{'kind': 'ok', 'delay': rng.choice([0.001, 0.02, 0.2])}],
                              'think': rng.choice([0.02, 0.1, 0.3]), 'role': 'after', 'start_at': rng.choice([0.12, 0.2, 0.5, 1.0]),
                              'decisions': [[RETHROW, None]]})
    if rng.random() < 0.35:
        p['faults'].append({'at': rng.choice([0.0, 0.05]), 'kind': 'refuse_new', 'node': 0, 'for': rng.choice([0.1, 0.3])})
    if rng.random() < 0.3:
        p['slow_connect'] = rng.choice([5, 30])
    p.update(strategy=gen_strategy(rng), line_p=rng.choice([0, 0, 0.01]), points=rng.choice([0, 2, 4]), time_jump_p=rng.choice([0, 0, 0.05]))
    if rng.random() < 0.3:
        # focused stalls in the two functions that race when a connection is replaced: a borrower that read the old connection
        # before the swap, and _replace between deciding and acting
        p['focus_stall'] = [rng.choice([['borrow_connection', '_replace'], ['borrow_connection', '_replace'], ['return_connection', '_replace'],
                                        'borrow_connection', '_replace']), rng.choice([0.1, 0.2, 0.3]), rng.choice([0.02, 0.05, 0.2])]
        if rng.random() < 0.3:
            # the thread returning a request sits between "the connection is not closed" and "is it defunct or closed?" while
            # _replace closes the drained old connection
            p.pop('focus_stall', None)
            p['deep_stalls'] = [['return_connection', line_offset('cassandra.pool', 'HostConnection.return_connection', 'is_defunct or ', 17),
                                 rng.choice([0.1, 0.3]), rng.choice([3, 6, 12])],
                                # (_replace needs the loop thread to open the new connection: it is parked once that is done, right
                                # before it decides what to do with the old one)
                                ['_replace', line_offset('cassandra.pool', 'HostConnection._replace', 'close_after = False', 40), rng.choice([0.2, 0.4]), 4]]
            for r in p['requests']:
                if r['role'] == 'live' and r['scripts'][0]['kind'] == 'ok':
                    r['scripts'][0]['delay'] = round(rng.uniform(0.05, 0.5), 3)
        elif rng.random() < 0.35:
            # one deep change point instead: the thread that reaches one given line of one of them sits there for a long while
            p['focus_stall'] = [rng.choice(['borrow_connection', 'return_connection', 'return_connection', '_replace']), 1.0, rng.choice([0.05, 0.2, 0.5]),
                                rng.randrange(1, 45), rng.choice([1, 2, 4])]
    elif rng.random() < 0.4:
        # stalled threads: a pool/loop/executor thread is descheduled between two lines of borrow/return/_replace while live requests
        # are answered at about the time the replacement completes
        p.update(stall=[rng.choice([0.3, 0.6]), rng.choice([0.02, 0.1, 0.4])], line_p=rng.choice([0.01, 0.03]), points=rng.choice([4, 8]))
        for r in p['requests']:
            if r['role'] == 'live' and r['scripts'][0]['kind'] == 'ok':
                r['scripts'][0]['delay'] = round(rng.uniform(0.05, 0.5), 3)
    return p


def run_plan(plan, seed, choices=None):
    run = PoolRun(plan, seed, choices, horizon=60.0, step_cap=4000000)
    w, sim = run.w, run.w.sim
    sim.spin_limit = 1500
    if plan.get('slow_connect'):
        w.net.slow[w.fc.nodes[0].addr] = 1      # applied after connect, see below
    connecting_bad = []

    def monitor():
        per = {}
        for s in w.net.all_socks:
            c = s.conn
            if c is not None and not s.closed and not c.established and s.err is None and \
                    any(fr.startswith('pool.py') and '_replace' in fr for fr in getattr(s, 'opened_stack', [])):
                per[c.addr[0]] = per.get(c.addr[0], 0) + 1
        for a, k in per.items():
            if k > 1 and len(connecting_bad) < 3:
                connecting_bad.append((sim.nlog, a, k))
    sim.monitors.append(monitor)
    status = run.run(settle=6.0)
    w.drain()
    V = Violations()
    node0 = w.fc.nodes[0]
    pool_conns = [nc for nc in node0.conns if not nc.events]
    replaced = len(pool_conns) > 1
    # ---- no-abandon
    for i, o in sorted(run.obs.items()):
        V.check('C13/no-abandon')
        capacity = o.calls and o.calls[0][2] == 'eb' and o.calls[0][3][0] == 'NoHostAvailable' and \
            ('NoConnectionsAvailable' in o.calls[0][3][1] or 'ConnectionBusy' in o.calls[0][3][1]) and 'Connection to' not in o.calls[0][3][1]
        if capacity:
            # refused for lack of a free stream id (the saturated old connection): a capacity refusal, not an abandoned request
            sim.probe('request_refused_all_ids_in_use')
        elif o.calls and o.calls[0][2] == 'eb' and o.calls[0][3][0] in ('ConnectionShutdown', 'ConnectionException', 'NoHostAvailable'):
            r = plan['requests'][i] if i < len(plan['requests']) else {}
            V.add('C13/no-abandon', 'live-request-failed-with-connection-error',
                  'request %d (%s, timeout %s) failed with %s although no connection fault was injected' % (i, r.get('role'), r.get('timeout'), o.calls[0][3]))
    # the old socket must not be closed while a non-orphaned request is outstanding on it
    socks = dict((s.label, s) for s in w.net.all_socks if s.label)
    for nc in pool_conns:
        s = socks.get(nc.label)
        if s is None or s.closed_seq is None:
            continue
        for e in node0.log:
            if e.get('conn') != nc.label or e.get('rid') is None or not e.get('kind'):
                continue
            o = run.obs.get(e['rid'])
            reply = [x for x in node0.replies if x['rid'] == e['rid'] and x['conn'] == nc.label]
            answered_before_close = reply and reply[0]['seq'] < s.closed_seq
            # the client timeout that orphans the last live stream closes the connection in the same call, just
            # before it runs the errback: that request counts as already timed out
            tmo = plan['requests'][e['rid']].get('timeout', 5.0) if e['rid'] < len(plan['requests']) else 5.0
            finished_before_close = o is not None and ((o.calls and o.calls[0][0] < s.closed_seq) or
                                                       (o.t_start is not None and o.t_start + tmo <= s.closed_t + 1e-6))
            if e['seq'] < s.closed_seq and not answered_before_close and not finished_before_close and o is not None:
                V.add('C13/no-abandon', 'closed-with-live-request',
                      'socket %s was closed (seq %d, by %s) while request %d on it was neither answered nor timed out' % (nc.label, s.closed_seq, s.closed_by, e['rid']))
    if replaced:
        old, new = pool_conns[0], pool_conns[1]
        olds = socks.get(old.label)
        first_new = [e for e in node0.log if e.get('conn') == new.label and e.get('kind')]
        live_at_replace = False
        if first_new:
            t_new = first_new[0]['seq']
            V.check('C13/moves')
            for e in node0.log:
                if e.get('kind') and e.get('conn') == old.label and e['seq'] > t_new:
                    o = run.obs.get(e['rid'])
                    if o is not None and o.seq_start > t_new:
                        V.add('C13/moves', 'new-request-on-old-connection',
                              'request %d started (seq %d) after the new connection was in use (seq %d) but was sent on the old connection %s'
                              % (e['rid'], o.seq_start, t_new, old.label))
        # live requests on old at the time the new connection was established
        est = [x for x in sim.log if x[3] == 'node.accept' and new.label in x[4]]
        for e in node0.log:
            if e.get('kind') and e.get('conn') == old.label:
                o = run.obs.get(e['rid'])
                r = plan['requests'][e['rid']] if e['rid'] < len(plan['requests']) else {}
                if r.get('role') == 'live':
                    live_at_replace = True
                    if o is not None and o.calls and o.calls[0][2] == 'eb' and o.calls[0][3][0] == 'OperationTimedOut':
                        sim.probe('live_request_timed_out_on_old_connection')
        if live_at_replace:
            sim.probe('replacement_with_live_requests')
        V.check('C13/eventually-closed')
        if status == 'done' and olds is not None and not olds.closed:
            pend = [o for o in run.obs.values() if o.result is None]
            # 'only orphaned streams remain' = no handler is still registered on the old connection (a request that was
            # sent after its future had already timed out while waiting for a stream id is still a live stream to the pool)
            oldc = [c for c in seams.ALL_CONNS if getattr(c._socket, 'label', None) == old.label]
            still_live = bool(oldc and oldc[0]._requests)
            if still_live:
                sim.probe('request_sent_after_its_future_timed_out')
            if not pend and not still_live:
                V.add('C13/eventually-closed', 'old-connection-never-closed',
                      'replaced connection %s is still open %.1f s after the last request finished; outstanding at node: %r'
                      % (old.label, 6.0, sorted(old.outstanding.items())[:6]))
        elif olds is not None and olds.closed:
            sim.probe('old_connection_trashed_then_closed')
    V.check('C13/single-replacement', sim.steps)
    for (seq, a, k) in connecting_bad:
        V.add('C13/single-replacement', 'concurrent-replacements', '%d replacement connects in progress to %s at seq %d' % (k, a, seq))
    if w.net.fault_counts.get('connect_refused'):
        sim.probe('replacement_refused_then_retried')
    for rp in node0.replies:
        o = run.obs.get(rp['rid'])
        if o and o.calls and o.calls[0][2] == 'eb' and o.calls[0][0] < rp['seq']:
            sim.probe('late_reply_on_orphaned_stream')
            break
    for cr in sim.crashes:
        if not cr[0].startswith(('user', 'main')):
            V.add('C13/no-abandon', 'thread-exception', 'thread %s died: %s' % (cr[0], cr[1]))
    return {'violations': V.items, 'rules_checked': V.checked, 'nontrivial': bool(sim.probes.get('replacement_with_live_requests')),
            'faults': dict(w.net.fault_counts), 'states': [w.abstract_state()],
            'summary': {'status': status, 'requests': len(run.obs), 'pool_conns_node0': len(pool_conns)},
            'stratum': 'replaced' if replaced else 'not-replaced'}
