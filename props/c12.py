"""C12 Connection pools keep exact accounting and close what they open (W-FULL, small-capacity knobs)."""
from dsim import seams
from dsim.core import HarnessError, Deadlock
from props.common import gen_strategy, quiet_logging, Violations, set_knob, line_offset
from worlds.reqpath import ReqPathRun, base_plan, RETRY_NEXT_HOST, RETHROW
from worlds.full import ReqObs

ID = 'C12'
TIERS = {'quick': {'runs': 9000, 'budget_s': 55, 'wall_cap': 120, 'block': 50},
         'thorough': {'runs': 300000, 'budget_s': 840, 'wall_cap': 120, 'block': 50}}
SHRINK_LISTS = ['requests', 'faults']
COVERAGE_RULE = ('one run = real Session/HostConnection pools over 1-3 fake nodes (protocol 3-5) with knobs max_in_flight 4-16 '
                 'and orphaned_threshold 1-4 on pooled connections; 2-4 user threads issue request storms whose timeouts are '
                 'shorter than some scripted delays (orphans), late responses, RST/stall faults, node crash/restart '
                 '(replacement, failed replacement retried), then session.shutdown()/cluster.shutdown() at a drawn time, then '
                 'more requests; in_flight is sampled after every scheduler step; distinct = event-log digest; non-trivial = '
                 'a connection was replaced or trashed, or a shutdown happened with requests in flight')
RULES = {
    'C12/capacity': 'requests outstanding on a connection at the node never exceed its number of stream ids; 0 <= in_flight <= ids after every step',
    'C12/non-negative': 'in_flight >= 0 after every step',
    'C12/borrow-after-shutdown': 'a borrow invoked after that pool\'s shutdown() returned never succeeds',
    'C12/closed-all': 'after shutdown and once pending requests finished, every socket the driver opened is closed (current, replaced, trashed)',
}
WORLD_INFO = {'real': ['HostConnection (borrow/return/_replace/shutdown/_trash)', 'Connection in_flight/orphaned accounting',
                       'ResponseFuture._on_timeout/_query', 'Session/Cluster shutdown paths'],
              'stub': ['libev C binding', 'sockets/TCP (socket log is the close oracle)', 'ThreadPoolExecutor', 'fake nodes']}
ASSUMPTIONS = ['protocol 1/2 HostConnectionPool is not exercised (the fake cluster speaks v3-v5 to the control connection)']
REQUIRED_PROBES = ['borrowed_last_stream_id', 'connection_replaced', 'connection_trashed', 'shutdown_with_inflight', 'orphan_threshold_reached',
                   'borrow_after_shutdown_attempted']


def prepare():
    seams.install_static()
    quiet_logging()


def gen_pool_plan(rng, tier, with_shutdown=True):
    p = base_plan(rng, nodes=rng.choice([1, 1, 2, 3]), legacy_p=0.2)
    n = len(p['cluster']['nodes'])
    mif = rng.choice([4, 6, 8, 16])
    thr = rng.choice([1, 2, 3, 4])
    p['knobs'] = {'max_in_flight': mif, 'orphaned_threshold': thr}
    p['exec'] = {'spec': None, 'executor_threads': rng.choice([1, 2, 4]), 'default_timeout': 5.0, 'reconnect_delay': 0.5}
    p['nthreads'] = rng.choice([1, 2, 3])
    nreq = rng.randrange(4, 28)
    for i in range(nreq):
        first = rng.randrange(n)
        order = [first] + [x for x in range(n) if x != first]
        k = rng.random()
        if k < 0.35:
            timeout, sc = rng.choice([0.03, 0.08]), rng.choice([{'kind': 'drop'}, {'kind': 'ok', 'delay': rng.choice([0.2, 0.6, 1.5])}])
        elif k < 0.7:
            timeout, sc = rng.choice([2.0, 4.0]), {'kind': 'ok', 'delay': rng.choice([0.002, 0.05, 0.3, 0.9])}
        else:
            timeout, sc = rng.choice([0.5, 2.0]), {'kind': 'ok', 'delay': rng.choice([0.001, 0.01])}
        p['requests'].append({'thread': rng.randrange(p['nthreads']), 'plan': order, 'idempotent': True, 'timeout': timeout,
                              'scripts': [sc], 'think': rng.choice([0, 0.002, 0.02, 0.1]),
                              'decisions': [[rng.choice([RETRY_NEXT_HOST, RETHROW]), None]] * 2})
    for _ in range(rng.choice([0, 0, 1, 2])):
        kind = rng.choice(['rst_pool', 'crash', 'stall'])
        node = rng.randrange(n)
        at = rng.choice([0.02, 0.1, 0.3, 0.8])
        p['faults'].append({'at': at, 'kind': kind, 'node': node, 'how': 'rst'})
        if kind == 'crash':
            p['faults'].append({'at': at + rng.choice([0.3, 1.0]), 'kind': 'restart', 'node': node})
        if kind == 'stall':
            p['faults'].append({'at': at + rng.choice([0.2, 0.7]), 'kind': 'unstall', 'node': node})
    if rng.random() < 0.3:
        # replacement connects are slow or fail for a while
        p['faults'].append({'at': rng.choice([0.05, 0.2]), 'kind': 'refuse_new', 'node': rng.randrange(n), 'for': rng.choice([0.05, 0.2, 0.4])})
    if rng.random() < 0.3:
        # saturation stratum: one tiny connection, several threads competing for its last free stream id
        p['knobs'] = {'max_in_flight': rng.choice([3, 4, 5]), 'orphaned_threshold': 100}
        p['nthreads'] = 3
        p['saturate'] = True
        for r in p['requests']:
            r.update(thread=rng.randrange(3), timeout=4.0, scripts=[{'kind': 'ok', 'delay': rng.choice([0.02, 0.05, 0.1])}], think=0)
            r['plan'] = [0] + [x for x in range(n) if x != 0]
    if with_shutdown:
        p['shutdown'] = {'what': rng.choice(['cluster', 'cluster', 'session']), 'at': rng.choice([0.05, 0.3, 1.0, 3.0, None]),
                         'after_requests': rng.choice([0, 2])}
    p.update(strategy=gen_strategy(rng), line_p=rng.choice([0, 0, 0.005]), points=rng.choice([0, 2, 4]), time_jump_p=rng.choice([0, 0, 0.05]))
    if p.get('saturate'):
        p['line_p'] = rng.choice([0.01, 0.05, 0.2])
    if rng.random() < 0.3:
        # stalled threads: a borrower, the loop thread or an executor thread is descheduled for a while between two lines of
        # borrow_connection / return_connection / _replace / shutdown / _on_timeout / _query / process_msg
        p.update(stall=[rng.choice([0.3, 0.6]), rng.choice([0.02, 0.1, 0.4])], line_p=rng.choice([0.005, 0.02]), points=rng.choice([4, 8]))
    if rng.random() < 0.3:
        # focused stall: one pool function is singled out; a thread running it is descheduled at some of its lines long enough for
        # a replacement, a response or a timeout to complete in between
        p['focus_stall'] = [rng.choice(['borrow_connection', 'borrow_connection', 'return_connection', '_replace', 'shutdown', '_on_timeout', '_query']),
                            rng.choice([0.05, 0.15, 0.3]), rng.choice([0.01, 0.05, 0.2])]
        if rng.random() < 0.3:
            # one deep change point instead: the thread that reaches one given line of that function sits there for a long while
            rel = rng.randrange(1, 45)
            if p['focus_stall'][0] == 'shutdown' and rng.random() < 0.6:
                # ... right before the pool closes its connection (after it has looked at it)
                rel = line_offset('cassandra.pool', 'HostConnection.shutdown', 'connection.close()', rel)
            p['focus_stall'] = [p['focus_stall'][0], 1.0, rng.choice([0.05, 0.2, 0.5]), rel, rng.choice([1, 2, 4])]
        if with_shutdown and p['shutdown']['at'] is not None and rng.random() < 0.5:
            p['shutdown_on_stall'] = True
    if rng.random() < 0.35:
        p['session_keyspace'] = 'ks1'
        p['use_delay'] = rng.choice([0.0, 0.02, 0.1, 0.4])
    return p


def gen_plan(rng, tier):
    return gen_pool_plan(rng, tier, True)


def line_funcs(w):
    HC = w.cpool.HostConnection
    RF = w.ccl.ResponseFuture
    HP = w.cpool.HostConnectionPool
    return [HC.borrow_connection, HC.return_connection, HC._replace, HC.shutdown, RF._on_timeout, RF._query, w.cconn.Connection.process_msg,
            HP.borrow_connection, HP.return_connection, HP._replace, HP.shutdown, HP._add_conn_if_under_max, HP._maybe_trash_connection,
            HP._maybe_spawn_new_connection, HP._wait_for_conn]


class PoolRun(ReqPathRun):
    """ReqPathRun + in_flight sampling, borrow/shutdown recording, refuse_new fault."""

    def __init__(self, plan, seed, choices=None, **kw):
        ReqPathRun.__init__(self, plan, seed, choices, line_funcs=line_funcs, **kw)
        w, sim = self.w, self.w.sim
        self.inflight_bad = []
        self.pool_events = []       # (seq, pool id, kind, detail)
        self.max_seen = {}
        self.over_capacity = []
        run = self
        for HC in (w.cpool.HostConnection, w.cpool.HostConnectionPool):
            self._wrap_pool_class(HC)

        def monitor():
            for c in seams.ALL_CONNS:
                f = c.in_flight
                if f < 0 or f > c.max_request_id + 1:
                    if len(run.inflight_bad) < 5:
                        run.inflight_bad.append((sim.nlog, getattr(c, '_sim_serial', 0), f, c.max_request_id,
                                                 c.is_control_connection, sorted(c.orphaned_request_ids)[:6]))
        sim.monitors.append(monitor)

    def _wrap_pool_class(self, HC):
        w, sim = self.w, self.w.sim
        run = self
        orig_borrow, orig_shutdown = HC.borrow_connection, HC.shutdown

        def borrow(pool, timeout):
            s0 = sim.nlog
            try:
                r = orig_borrow(pool, timeout)
            except Exception as e:
                run.pool_events.append((s0, sim.nlog, id(pool), 'borrow-raise', type(e).__name__))
                raise
            run.pool_events.append((s0, sim.nlog, id(pool), 'borrow-ok', str(pool.host.endpoint.address)))
            c = r[0]
            if c.in_flight > c.max_request_id and len(run.over_capacity) < 3:
                run.over_capacity.append((sim.nlog, getattr(c, '_sim_serial', 0), c.in_flight, c.max_request_id))
            if c.in_flight >= c.max_request_id:
                sim.probe('borrowed_last_stream_id')
            return r

        def shutdown(pool):
            s0 = sim.nlog
            r = orig_shutdown(pool)
            run.pool_events.append((s0, sim.nlog, id(pool), 'shutdown', str(pool.host.endpoint.address)))
            return r
        set_knob(HC, 'borrow_connection', borrow)
        set_knob(HC, 'shutdown', shutdown)

    def apply_fault(self, f):
        if f['kind'] == 'refuse_new':
            n = self.w.fc.nodes[f['node']]
            n.mode = 'refuse'
            self.w.sim.rec('fault', 'refuse new connections n%d' % n.idx)
            self.w.net.count('refuse_new')
            self.w.sim.at(f['for'], lambda: setattr(n, 'mode', 'accept'), 'accept again n%d' % n.idx)
            return
        ReqPathRun.apply_fault(self, f)

    def main(self):
        plan, w = self.plan, self.w
        sd = plan.get('shutdown')
        if sd and sd['at'] is not None:
            w.spawn(self.shutter, 'shutter', sd)
        ReqPathRun.main(self)
        if sd and sd['at'] is None:
            self.do_shutdown(sd)

    def shutter(self, sd):
        w = self.w
        while not self.st.get('started') and not self.connect_error:
            w.sleep(0.01)
        if self.plan.get('shutdown_on_stall') and self.plan.get('focus_stall'):
            # bound to the focused stall: shut down while some thread sits between two lines of the singled-out function
            sim = w.sim
            end = sim.vnow() + max(sd['at'], 0.05) * 3
            while sim.focus_hits == 0 and sim.vnow() < end:
                w.sleep(0.002)
            if sim.focus_hits:
                sim.probe('shutdown_during_focused_stall')
        else:
            w.sleep(sd['at'])
        self.do_shutdown(sd)

    def do_shutdown(self, sd):
        w, sim = self.w, self.w.sim
        if w.session is None:
            return
        inflight = sum(c.in_flight for c in seams.ALL_CONNS if not c.is_control_connection and not c.is_closed)
        if inflight:
            sim.probe('shutdown_with_inflight')
        self.st['shutdown_start'] = sim.nlog
        sim.rec('shutdown.start', sd['what'])
        try:
            if sd['what'] == 'session':
                w.session.shutdown()
            else:
                w.cluster.shutdown()
        except Exception as e:
            self.st['shutdown_exc'] = repr(e)
        self.st['shutdown_end'] = sim.nlog
        sim.rec('shutdown.done', sd['what'])
        # more requests after shutdown: they must not borrow from shut-down pools
        for j in range(sd.get('after_requests', 0)):
            o = ReqObs(w, 800 + j)
            try:
                o.start(w.session, "SELECT * FROM ks1.t /*rid=%d*/" % (800 + j), timeout=1.0)
                o.wait()
            except Exception as e:
                o.result = ('err', type(e).__name__, str(e)[:100])
            self.obs[800 + j] = o
            sim.probe('borrow_after_shutdown_attempted')
        if sd['what'] == 'session':
            try:
                w.cluster.shutdown()
            except Exception as e:
                self.st['shutdown_exc'] = repr(e)
        self.st['all_shutdown'] = sim.nlog


def pool_probes(run):
    w, sim = run.w, run.w.sim
    trashed = replaced = 0
    per_node = {}
    for s in w.net.all_socks:
        if s.conn is not None:
            per_node.setdefault(s.conn.addr[0], []).append(s)
    for c in seams.ALL_CONNS:
        if c.orphaned_threshold_reached:
            sim.probe('orphan_threshold_reached')
    for ev in run.pool_events:
        pass
    for n in w.fc.nodes:
        pool_conns = [nc for nc in n.conns if not nc.events]
        if len(pool_conns) > 1:
            sim.probe('connection_replaced')
            replaced += 1
    for lg in [x for x in sim.log if x[3] == 'trash']:
        trashed += 1
    return replaced


def run_plan(plan, seed, choices=None):
    run = PoolRun(plan, seed, choices, horizon=80.0, step_cap=5000000)
    run.w.sim.spin_limit = 1500
    w, sim = run.w, run.w.sim
    HC = w.cpool.HostConnection
    # observe trashing
    orig_replace = HC._replace.__wrapped__ if hasattr(HC._replace, '__wrapped__') else None
    deadlock = None
    try:
        status = run.run(settle=4.0)
        w.drain()
    except Deadlock as e:
        # every thread blocked for good while a pool/session/cluster shutdown is in progress: the pool can never finish closing
        # what it opened (anything else that deadlocks stays a harness matter)
        if run.st.get('shutdown_start') is None or run.st.get('shutdown_end') is not None:
            raise
        status, deadlock = 'deadlock', str(e)
    V = Violations()
    if deadlock:
        V.check('C12/closed-all')
        V.add('C12/closed-all', 'shutdown-deadlocked', 'shutdown() (seq %d) never returned, every thread is blocked: %s; %d socket(s) still open'
              % (run.st['shutdown_start'], deadlock, len([s for s in w.net.all_socks if not s.closed])))
    nontrivial = False
    # ---- in_flight bounds
    V.check('C12/non-negative', sim.steps)
    V.check('C12/capacity', sim.steps)
    for (seq, serial, f, maxid, ctrl, orph) in run.inflight_bad:
        if f < 0:
            V.add('C12/non-negative', 'in-flight-negative', 'connection #%d had in_flight=%d at seq %d (orphaned %r)' % (serial, f, seq, orph))
        else:
            V.add('C12/capacity', 'in-flight-over-capacity', 'connection #%d had in_flight=%d with only %d stream ids at seq %d' % (serial, f, maxid + 1, seq))
    for (seq, serial, f, maxid) in run.over_capacity:
        V.add('C12/capacity', 'borrowed-beyond-capacity', 'borrow_connection handed out connection #%d with in_flight=%d although its request capacity is %d (seq %d)'
              % (serial, f, maxid, seq))
    # node side: outstanding per connection never exceeds the id space
    mif = plan['knobs']['max_in_flight']
    for n in w.fc.nodes:
        for nc in n.conns:
            if nc.events:
                continue
            V.check('C12/capacity')
            if len(nc.outstanding) > mif + (1 if plan.get('version', 4) < 3 else 0):      # protocol 1/2: ids 0..min(max_in_flight, 127)
                V.add('C12/capacity', 'node-outstanding-over-capacity', 'node %d %s has %d outstanding streams, id space %d'
                      % (n.idx, nc.label, len(nc.outstanding), mif))
    if w.fc.stream_reuse:
        V.add('C12/capacity', 'stream-reused-while-outstanding', repr(w.fc.stream_reuse[0]))
    # ---- borrow after shutdown
    shut = {}
    for (s0, s1, pid, kind, detail) in run.pool_events:
        if kind == 'shutdown':
            shut.setdefault(pid, s1)
    for (s0, s1, pid, kind, detail) in run.pool_events:
        if kind == 'borrow-ok' and pid in shut and s0 > shut[pid]:
            V.check('C12/borrow-after-shutdown')
            V.add('C12/borrow-after-shutdown', 'borrow-succeeded-after-shutdown',
                  'borrow_connection on the pool of %s invoked at seq %d succeeded although shutdown() had returned at seq %d' % (detail, s0, shut[pid]))
    V.check('C12/borrow-after-shutdown', sum(1 for e in run.pool_events if e[3].startswith('borrow')))
    # ---- closed-all
    replaced = pool_probes(run)
    if replaced:
        nontrivial = True
    if plan.get('shutdown') and run.st.get('all_shutdown') is not None and status == 'done':
        V.check('C12/closed-all')
        pending = [o for o in run.obs.values() if o.future is not None and not o.calls and o.result is None]
        # only connections opened on behalf of a pool (HostConnection.__init__ / _replace); control-connection and
        # reconnection-probe sockets are C45's subject
        open_socks = [s for s in w.net.all_socks if not s.closed and any(fr.startswith('pool.py') for fr in getattr(s, 'opened_stack', []))]
        if open_socks and not pending:
            s = open_socks[0]
            trash = any(c._socket is s and c.orphaned_threshold_reached for c in seams.ALL_CONNS)
            connecting = s.conn is not None and not s.conn.established and not s.err
            kind = 'trashed-connection' if trash else ('still-connecting' if connecting else 'connection')
            if trash:
                sim.probe('connection_trashed')
            V.add('C12/closed-all', 'socket-open-after-shutdown:' + kind,
                  '%d socket(s) still open after %s shutdown and quiescence; first: fd=%d to %s opened by %s (%s)'
                  % (len(open_socks), plan['shutdown']['what'], s.fd, s.conn.addr[0] if s.conn else '?', s.opened_by, kind)
                  + ' opened via ' + ' < '.join(getattr(s, 'opened_stack', [])[2:9]))
    for c in seams.ALL_CONNS:
        if c.orphaned_threshold_reached and c.is_closed:
            sim.probe('connection_trashed')
            nontrivial = True
    if run.st.get('shutdown_exc'):
        V.add('C12/closed-all', 'shutdown-raised', 'shutdown raised %s' % run.st['shutdown_exc'])
    for cr in sim.crashes:
        if not cr[0].startswith(('user', 'shutter', 'main')):
            V.add('C12/closed-all', 'thread-exception', 'thread %s died: %s' % (cr[0], cr[1]))
    if run.st.get('shutdown_start') is not None:
        nontrivial = nontrivial or bool(sim.probes.get('shutdown_with_inflight'))
    return {'violations': V.items, 'rules_checked': V.checked, 'nontrivial': bool(nontrivial),
            'faults': dict(w.net.fault_counts), 'states': [w.abstract_state()],
            'summary': {'status': status, 'requests': len(run.obs), 'sockets': len(w.net.all_socks)},
            'stratum': 'n%d%s' % (len(plan['cluster']['nodes']), '-v2pool' if plan.get('version', 4) < 3 else '')}
