"""Helpers shared by property modules."""
import logging


def gen_strategy(rng):
    k = rng.random()
    if k < 0.35:
        return {'kind': 'uniform'}
    if k < 0.75:
        return {'kind': 'sticky', 'p': rng.choice([0.5, 0.9, 0.99])}
    return {'kind': 'pct', 'd': rng.choice([1, 2, 3, 5]), 'est': rng.choice([200, 1000, 5000])}


LOGS = []          # (level, logger, message, exc text) of the current run; cleared by the runner


class _Capture(logging.Handler):
    """Lock-free capturing handler: logging's own locks are real locks and must not be taken by
    sim-threads; never draws from a PRNG or reads the sim clock."""

    def createLock(self):
        self.lock = None

    def acquire(self):
        pass

    def release(self):
        pass

    def emit(self, record):
        if len(LOGS) < 400:
            try:
                msg = record.getMessage()
            except Exception:
                msg = str(record.msg)
            exc = ''
            if record.exc_info and record.exc_info[1] is not None:
                exc = repr(record.exc_info[1])
            LOGS.append((record.levelname, record.name, msg[:300], exc[:300]))


def quiet_logging():
    root = logging.getLogger()
    for h in list(root.handlers):
        root.removeHandler(h)
    root.addHandler(_Capture())
    root.setLevel(logging.WARNING)
    logging.getLogger('cassandra').setLevel(logging.WARNING)
    logging.raiseExceptions = False


class Violations(object):
    """Collects rule violations of one run; at most one per (rule, sig)."""

    def __init__(self):
        self.items = []
        self.seen = set()
        self.checked = {}

    def check(self, rule, n=1):
        self.checked[rule] = self.checked.get(rule, 0) + n

    def add(self, rule, sig, msg):
        key = (rule, sig)
        if key in self.seen:
            return
        self.seen.add(key)
        self.items.append({'rule': rule, 'sig': sig, 'msg': msg})


_knobs = []


def set_knob(obj, attr, value):
    """Set a class/module attribute for this run only (restored by the runner after the run)."""
    missing = object()
    old = obj.__dict__.get(attr, missing) if hasattr(obj, '__dict__') else getattr(obj, attr, missing)
    _knobs.append((obj, attr, old, missing))
    setattr(obj, attr, value)


def restore_knobs():
    del LOGS[:]
    while _knobs:
        obj, attr, old, missing = _knobs.pop()
        if old is missing:
            try:
                delattr(obj, attr)
            except AttributeError:
                pass
        else:
            setattr(obj, attr, old)
