"""Helpers shared by property modules."""
import logging


def gen_strategy(rng):
    k = rng.random()
    if k < 0.35:
        return {'kind': 'uniform'}
    if k < 0.75:
        return {'kind': 'sticky', 'p': rng.choice([0.5, 0.9, 0.99])}
    return {'kind': 'pct', 'd': rng.choice([1, 2, 3, 5]), 'est': rng.choice([200, 1000, 5000])}


LOGS = []          # (level, logger, message, exc text) of the current run; cleared by the runner


class _Capture(logging.Handler):
    """Lock-free capturing handler: logging's own locks are real locks and must not be taken by
    sim-threads; never draws from a PRNG or reads the sim clock."""

    def createLock(self):
        self.lock = None

    def acquire(self):
        pass

    def release(self):
        pass

    def emit(self, record):
        if len(LOGS) < 400:
            try:
                msg = record.getMessage()
            except Exception:
                msg = str(record.msg)
            exc = ''
            if record.exc_info and record.exc_info[1] is not None:
                exc = repr(record.exc_info[1])
            LOGS.append((record.levelname, record.name, msg[:300], exc[:300]))


def quiet_logging():
    root = logging.getLogger()
    for h in list(root.handlers):
        root.removeHandler(h)
    root.addHandler(_Capture())
    root.setLevel(logging.WARNING)
    logging.getLogger('cassandra').setLevel(logging.WARNING)
    logging.raiseExceptions = False


class Violations(object):
    """Collects rule violations of one run; at most one per (rule, sig)."""

    def __init__(self):
        self.items = []
        self.seen = set()
        self.checked = {}

    def check(self, rule, n=1):
        self.checked[rule] = self.checked.get(rule, 0) + n

    def add(self, rule, sig, msg):
        key = (rule, sig)
        if key in self.seen:
            return
        self.seen.add(key)
        self.items.append({'rule': rule, 'sig': sig, 'msg': msg})


_knobs = []


def set_knob(obj, attr, value):
    """Set a class/module attribute for this run only (restored by the runner after the run)."""
    missing = object()
    old = obj.__dict__.get(attr, missing) if hasattr(obj, '__dict__') else getattr(obj, attr, missing)
    _knobs.append((obj, attr, old, missing))
    setattr(obj, attr, value)


def restore_knobs():
    del LOGS[:]
    while _knobs:
        obj, attr, old, missing = _knobs.pop()
        if old is missing:
            try:
                delattr(obj, attr)
            except AttributeError:
                pass
        else:
            setattr(obj, attr, old)


def gen_stalls(rng, funcs, p=0.3, max_line=36):
    """Swarm option: thread-stall faults for this run ({} most of the time).  Either any pre-emption point may turn into a stall, or one
    (sometimes two) of the property's anchor functions is singled out and threads running it are descheduled at some of its lines."""
    if rng.random() >= p:
        return {}
    if rng.random() < 0.5:
        return {'stall': [rng.choice([0.3, 0.6]), rng.choice([0.02, 0.1, 0.4])], 'line_p': rng.choice([0.005, 0.02]), 'points': rng.choice([4, 8])}
    f = rng.choice(funcs)
    if rng.random() < 0.35:
        # one deep change point: the thread that reaches one given line of the function sits there for a long while
        return {'focus_stall': [f, 1.0, rng.choice([0.05, 0.2, 0.5]), rng.randrange(1, max_line), rng.choice([1, 2, 4])]}
    if len(funcs) > 1 and rng.random() < 0.3:
        f = sorted(rng.sample(funcs, 2))
    return {'focus_stall': [f, rng.choice([0.05, 0.15, 0.3]), rng.choice([0.01, 0.05, 0.2])]}


def line_offset(module, qualname, needle, default=None, nth=0, inner=None):
    """Line offset (relative to the def line) of the nth source line of module.qualname that contains `needle`; used by generators
    to plant a deep stall at a named place without hard-coding line numbers.  Falls back to `default` when the text is not there."""
    import importlib
    import inspect
    try:
        obj = importlib.import_module(module)
        for part in qualname.split('.'):
            obj = getattr(obj, part)
        while hasattr(obj, '__wrapped__'):
            obj = obj.__wrapped__
        lines, first = inspect.getsourcelines(obj)
        code_first = obj.__code__.co_firstlineno
        hits = [i for i, l in enumerate(lines) if needle in l]
        if inner:
            # offset inside a nested function (its own code object): relative to the line of its def
            defs = [i for i, l in enumerate(lines) if l.strip().startswith('def %s(' % inner)]
            hits = [i for i in hits if defs and i > defs[0]]
            if defs and len(hits) > nth:
                return hits[nth] - defs[0]
            return default
        if len(hits) > nth:
            return first + hits[nth] - code_first
    except Exception:
        pass
    return default
