"""Helpers shared by property modules."""
import logging


def gen_strategy(rng):
    k = rng.random()
    if k < 0.35:
        return {'kind': 'uniform'}
    if k < 0.75:
        return {'kind': 'sticky', 'p': rng.choice([0.5, 0.9, 0.99])}
    return {'kind': 'pct', 'd': rng.choice([1, 2, 3, 5]), 'est': rng.choice([200, 1000, 5000])}


def quiet_logging():
    logging.disable(logging.CRITICAL)


class Violations(object):
    """Collects rule violations of one run; at most one per (rule, sig)."""

    def __init__(self):
        self.items = []
        self.seen = set()
        self.checked = {}

    def check(self, rule, n=1):
        self.checked[rule] = self.checked.get(rule, 0) + n

    def add(self, rule, sig, msg):
        key = (rule, sig)
        if key in self.seen:
            return
        self.seen.add(key)
        self.items.append({'rule': rule, 'sig': sig, 'msg': msg})


_knobs = []


def set_knob(obj, attr, value):
    """Set a class/module attribute for this run only (restored by the runner after the run)."""
    missing = object()
    old = obj.__dict__.get(attr, missing) if hasattr(obj, '__dict__') else getattr(obj, attr, missing)
    _knobs.append((obj, attr, old, missing))
    setattr(obj, attr, value)


def restore_knobs():
    while _knobs:
        obj, attr, old, missing = _knobs.pop()
        if old is missing:
            try:
                delattr(obj, attr)
            except AttributeError:
                pass
        else:
            setattr(obj, attr, old)
