"""C06 Protocol v5 segments are reassembled exactly and corruption is detected (world W-CONN, v5)."""
from dsim.core import Sim, HarnessError
from dsim import seams
from fakecass import codec as C
from props.common import gen_strategy, quiet_logging, Violations, set_knob
from worlds.conn import ConnWorld, HandshakePeer, register_standin_lz4

ID = 'C06'
TIERS = {'quick': {'runs': 12000, 'budget_s': 50, 'wall_cap': 90, 'block': 200},
         'thorough': {'runs': 800000, 'budget_s': 840, 'wall_cap': 90, 'block': 200}}
SHRINK_LISTS = ['requests']
COVERAGE_RULE = ('one run = protocol 5 connection (checksummed segments), with or without negotiated compression '
                 '(zlib stand-in registered as lz4), message sizes around and above the 128 KiB segment limit, small '
                 'messages coalesced into one segment, per-segment choice compressed/left-uncompressed, in_buffer_size '
                 'knob, chunking mode, and optionally ONE bit flipped in the server byte stream; distinct = event-log '
                 'digest; non-trivial = a multi-segment message, a coalesced segment, an uncompressed segment on a '
                 'compressed connection or a bit flip occurred, and the stream was split')
RULES = {
    'C06/exact': 'fault-free: delivered messages = sent messages, each exactly once, exact bytes, in order',
    'C06/no-spurious': 'fault-free: no CRC error / defunct',
    'C06/outgoing': 'the independent segment decoder accepts every segment the driver writes',
    'C06/detected': 'with a bit flip: once all bytes are delivered the connection is defunct with a CRC error',
    'C06/no-altered': 'with a bit flip: every delivered message is byte-identical to a sent one, deliveries form a prefix '
                      'of the sent sequence, and nothing is delivered after the defunct',
}
WORLD_INFO = {'real': ['cassandra.connection.Connection (_process_segment_buffer, process_io_buffer, send_msg segment encode)',
                       'cassandra.segment.SegmentCodec', 'LibevConnection/LibevLoop', 'ProtocolHandler'],
              'stub': ['libev C binding', 'sockets/TCP', 'server peer with independent CRC24/CRC32 segment codec',
                       'LZ4 (zlib stand-in under the same 4-byte length-prefix wrapper convention; python-lz4 is not installed)']}
ASSUMPTIONS = ['the subject is segment framing, not the LZ4 algorithm: a zlib stand-in is registered as "lz4" on both sides',
               'single bit flips only (the protocol checksums detect those by construction)']
REQUIRED_PROBES = ['multi_segment_message', 'coalesced_segment', 'uncompressed_segment_on_compressed_conn', 'bitflip',
                   'split_delivery']

BIG = [131071 - 60, 131071 - 40, 131071 - 30, 131071 - 20, 131071, 131072, 131073, 140000, 262142, 262200, 400000]
SMALL = [0, 1, 2, 3, 5, 8, 9, 64, 100, 1000, 4095, 4096, 4097, 20000, 70000]


def prepare():
    seams.install_static()
    quiet_logging()


def gen_plan(rng, tier):
    n = rng.choice([1, 2, 3, 4, 6, 10])
    big = rng.random() < 0.35
    reqs = []
    budget = 900000
    for i in range(n):
        if big and rng.random() < 0.5 and budget > 0:
            size = rng.choice(BIG)
        else:
            size = rng.choice(SMALL)
        budget -= size
        reqs.append({'size': size, 'delay': rng.choice([0, 0, 0, 0.001, 0.01]),
                     'force_unc': rng.random() < 0.3,
                     'compressible': rng.random() < 0.7})
    flip = None
    if rng.random() < 0.4:
        flip = {'reply': rng.randrange(n), 'frac': rng.random(), 'bit': rng.randrange(8),
                'where': rng.choice(['any', 'any', 'head', 'tail'])}
    out_big = None
    if flip is None and rng.random() < 0.3:
        # outgoing direction: other threads send requests of several segments each while the main thread sends its own
        out_big = [rng.choice([131071, 131072, 140000, 270000, 400000]) for _ in range(rng.choice([1, 2, 3]))]
    return {
        'out_big': out_big, 'line_p': rng.choice([0.05, 0.2, 0.5]) if out_big else 0,
        'compression': rng.random() < 0.5,
        'in_buffer_size': rng.choice([1, 5, 6, 7, 8, 9, 64, 4096, 4096, 65536]),
        'chunk_mode': rng.choice(['mixed', 'mixed', 'bytes1', 'random', 'boundary', 'tiny', 'whole']),
        'lat': rng.choice([[0.0, 0.0], [0.0005, 0.005]]),
        'coalesce': rng.random() < 0.5,
        'requests': reqs,
        'flip': flip,
        'strategy': gen_strategy(rng),
    }


def big_query(j, size):
    head = 'SELECT /*big=%d*/ ' % j
    return head + ''.join(chr(97 + (i * 7 + j) % 26) for i in range(size - len(head)))


def plan_ok(plan):
    f = plan.get('flip')
    return not f or f['reply'] < len(plan['requests'])


def payload(k, size, compressible):
    if compressible:
        seedb = ('%d:' % k).encode()
        return (seedb * (size // len(seedb) + 1))[:size]
    # incompressible-ish deterministic bytes
    out = bytearray()
    x = (k * 2654435761 + 12345) & 0xffffffff
    while len(out) < size:
        x = (x * 1103515245 + 12345) & 0xffffffff
        out += x.to_bytes(4, 'big')
    return bytes(out[:size])


class C06Peer(HandshakePeer):
    def __init__(self, world, plan):
        HandshakePeer.__init__(self, world, versions=(5,), compressions=(['lz4'] if plan['compression'] else []))
        self.plan = plan
        self.stream_log = []
        self.batch = []
        self.replies = 0
        self.flipped = None
        self.big_seen = []

    def on_query(self, pc, fr, req):
        sim = self.sim
        q = (req or {}).get('query', '')
        if '/*big=' in q:
            j = int(q.split('big=')[1].split('*')[0])
            self.big_seen.append((j, len(q), q == big_query(j, self.plan['out_big'][j])))
            return
        try:
            k = int(q.split('rid=')[1].split('*')[0])
        except Exception:
            return
        spec = self.plan['requests'][k]
        body = C.rows_body('ks', 't', [('rid', C.T_INT), ('data', C.T_BLOB)],
                           [[k, payload(k, spec['size'], spec['compressible'])]], version=5)
        stream = fr['stream']
        env = C.frame(5, stream, C.RESULT, body)

        def emit():
            self.batch.append((k, stream, body, env, spec))
            if not self.plan['coalesce']:
                self.flush(pc)
            else:
                sim.at(0.0, lambda: self.flush(pc), 'flush')
        sim.at(spec['delay'], emit, 'reply rid=%d' % k)

    def flush(self, pc):
        if not self.batch:
            return
        batch, self.batch = self.batch, []
        comp = pc.compression is not None
        for (k, stream, body, env, spec) in batch:
            self.stream_log.append((stream, body, k))
        envs = [b[3] for b in batch]
        force_unc = any(b[4]['force_unc'] for b in batch)
        # encode to segments ourselves so that a flip can be placed precisely
        segs = []
        pending = b''
        from worlds.conn import seg_compress
        for env in envs:
            if len(env) > C.MAX_PAYLOAD:
                if pending:
                    segs += C.segments_for(pending, comp, seg_compress, force_unc)
                    pending = b''
                segs += C.segments_for(env, comp, seg_compress, force_unc)
                self.sim.probe('multi_segment_message')
            elif len(pending) + len(env) <= C.MAX_PAYLOAD and self.plan['coalesce']:
                if pending:
                    self.sim.probe('coalesced_segment')
                pending += env
            else:
                if pending:
                    segs += C.segments_for(pending, comp, seg_compress, force_unc)
                pending = env
        if pending:
            segs += C.segments_for(pending, comp, seg_compress, force_unc)
        if comp:
            for sg in segs:
                h = int.from_bytes(sg[:5], 'little')
                if (h >> 17) & C.MAX_PAYLOAD == 0 and (h & C.MAX_PAYLOAD) > 0:
                    self.sim.probe('uncompressed_segment_on_compressed_conn')
                    break
        data = b''.join(segs)
        fl = self.plan.get('flip')
        if fl and self.flipped is None and any(b[0] == fl['reply'] for b in batch) and data:
            hl = (5 if comp else 3) + 3
            if fl['where'] == 'head':
                off = int(fl['frac'] * hl) % len(data)
            elif fl['where'] == 'tail':
                off = len(data) - 1 - int(fl['frac'] * 4)
            else:
                off = int(fl['frac'] * len(data))
            off = max(0, min(off, len(data) - 1))
            b = bytearray(data)
            b[off] ^= 1 << fl['bit']
            data = bytes(b)
            self.flipped = (self.sim.nlog, off, len(data), [x[0] for x in batch])
            self.world.net.count('bitflip')
            self.sim.probe('bitflip')
            self.sim.rec('fault', 'bitflip off=%d of %d' % (off, len(data)))
        cuts = []
        pos = 0
        for sg in segs:
            cuts += [pos + 1, pos + 3, pos + 5, pos + 6, pos + 8, pos + len(sg) - 4, pos + len(sg) - 2, pos + len(sg) - 1]
            pos += len(sg)
            cuts.append(pos)
        pc.conn.server_send(data, cuts=cuts)
        self.sim.rec('peer.send', '%d segments %dB' % (len(segs), len(data)))


def run_plan(plan, seed, choices=None):
    w = ConnWorld(plan, seed, choices, horizon=600.0, step_cap=3000000,
                  net={'lat': tuple(plan['lat']), 'chunk_mode': plan['chunk_mode']})
    sim, M = w.sim, w.M
    cconn = M['cconn']
    proto = __import__('cassandra.protocol', fromlist=['x'])
    set_knob(w.conn_class, 'in_buffer_size', plan['in_buffer_size'])
    # a reader that loops over its buffer without ever returning to the reactor can never end (nothing else runs meanwhile)
    sim.watch_spin([cconn.Connection.process_io_buffer], cap=300000)
    if plan['compression']:
        register_standin_lz4()
    peer = C06Peer(w, plan)
    w.listen(peer)
    V = Violations()
    delivered = []
    errors = []
    state = {'conn': None, 'sent_all': False, 'defunct_seq': None}
    real_decode = proto.ProtocolHandler.decode_message

    def make_handler(k, stream):
        raw = {}

        def decoder(pv, utm, stream_id, flags, opcode, body, decompressor, result_metadata):
            raw['hdr'] = (stream_id, opcode)
            raw['body'] = bytes(body)
            return real_decode(pv, utm, stream_id, flags, opcode, body, decompressor, result_metadata)

        def cb(response):
            if isinstance(response, Exception):
                errors.append((sim.nlog, k, response))
                sim.rec('deliver-error', 'rid=%d %s' % (k, type(response).__name__))
                return
            rows = getattr(response, 'parsed_rows', None)
            delivered.append((sim.nlog, k, stream, raw.get('hdr'), raw.get('body'), rows[0] if rows else None))
            sim.rec('deliver', 'rid=%d stream=%d' % (k, stream))
        return decoder, cb

    def main():
        try:
            conn = w.factory(10.0, protocol_version=5, compression=bool(plan['compression']))
        except Exception as e:
            V.add('C06/no-spurious', 'handshake-failed', 'factory raised %r' % (e,))
            return
        state['conn'] = conn
        if bool(conn.compressor) != bool(plan['compression']):
            V.add('C06/no-spurious', 'compression-not-negotiated', 'compressor=%r plan=%r' % (conn.compressor, plan['compression']))
        for k, spec in enumerate(plan['requests']):
            with conn.lock:
                stream = conn.get_request_id()
                conn.in_flight += 1
            decoder, cb = make_handler(k, stream)
            try:
                conn.send_msg(proto.QueryMessage('SELECT /*rid=%d*/' % k, 1), stream, cb, decoder=decoder)
            except Exception as e:
                errors.append((sim.nlog, k, e))
        state['sent_all'] = True

    def big_sender(j):
        while state['conn'] is None and not V.items:
            cconn.time.sleep(0.001)
        conn = state['conn']
        if conn is None:
            return
        with conn.lock:
            stream = conn.get_request_id()
            conn.in_flight += 1
        try:
            conn.send_msg(proto.QueryMessage(big_query(j, plan['out_big'][j]), 1), stream, lambda r: None)
            sim.probe('multi_segment_request_sent')
        except Exception as e:
            errors.append((sim.nlog, 1000 + j, e))
        big_done.append(j)

    big_done = []
    if plan.get('out_big'):
        sim.enable_line_preemption([cconn.Connection.send_msg, cconn.SegmentCodec.encode, w.conn_class.push], p=plan.get('line_p', 0.2),
                                   points=4, est_lines=400)
        for j in range(len(plan['out_big'])):
            w.spawn(big_sender, 'big%d' % j, j)
    w.spawn(main, 'main')
    n = len(plan['requests'])

    def finished():
        c = state['conn']
        return bool(V.items) or (state['sent_all'] and (len(delivered) + len(errors) >= n) and len(big_done) == len(plan.get('out_big') or []))

    status = sim.run(until=finished)
    # let in-flight bytes drain so that "once all bytes are delivered" holds
    if status == 'done' and not V.items:
        status2 = sim.run(until=lambda: not any(e[3].startswith('s2c') or e[3].startswith('reply') or e[3] == 'flush'
                                                for e in sim.events) and
                          all(t.state != 'runnable' for t in sim.threads))
        if plan.get('out_big'):
            # the large requests leave through the loop thread's write queue: wait until the peer has them all or nothing moves any more
            end = sim.now + 5.0
            sim.run(until=lambda: len(peer.big_seen) >= len(plan['out_big']) or sim.now >= end or
                    (not sim.events and all(t.state != 'runnable' for t in sim.threads)))
    conn = state['conn']
    flip = peer.flipped
    sent = peer.stream_log
    if status == 'horizon':
        raise HarnessError('C06 run reached the virtual horizon')
    by_rid = {}
    for d in delivered:
        if d[1] in by_rid:
            V.add('C06/exact', 'duplicate-delivery', 'rid %d delivered twice' % d[1])
        by_rid[d[1]] = d
    sent_by_rid = dict((k, (stream, body)) for stream, body, k in sent)
    for d in delivered:
        seq, k, stream, hdr, body, row0 = d
        V.check('C06/exact' if not flip else 'C06/no-altered')
        exp = sent_by_rid.get(k)
        rule = 'C06/no-altered' if flip else 'C06/exact'
        if exp is None:
            V.add(rule, 'spurious-delivery', 'rid %d delivered but never sent' % k)
            continue
        if hdr is None or hdr[0] != exp[0] or body != exp[1]:
            V.add(rule, 'altered-body', 'rid %d: delivered body differs from the sent one (%d vs %d bytes)'
                  % (k, len(body or b''), len(exp[1])))
        spec = plan['requests'][k]
        want = payload(k, spec['size'], spec['compressible'])
        if row0 is None or row0[0] != k or bytes(row0[1] or b'') != want:
            V.add(rule, 'altered-rows', 'rid %d: decoded rows differ from the sent content' % k)
    order_sent = [k for _, _, k in sent]
    order_del = [d[1] for d in sorted(delivered, key=lambda d: d[0])]
    if not flip:
        V.check('C06/no-spurious')
        if conn is not None and (conn.is_defunct or conn.is_closed):
            V.add('C06/no-spurious', 'defunct-' + type(conn.last_error).__name__, 'fault-free stream defuncted the connection: %r' % (conn.last_error,))
        elif order_del != order_sent[:len(order_del)] or (status != 'done' and len(order_del) < len(order_sent)) \
                or (status == 'done' and len(order_del) != len(order_sent) and not V.items):
            V.add('C06/exact', 'order-or-missing', 'sent %r delivered %r (status %s)' % (order_sent[:12], order_del[:12], status))
        V.check('C06/outgoing')
        if peer.decode_errors:
            V.add('C06/outgoing', 'peer-decode-error', 'independent decoder rejected driver output: %r' % (peer.decode_errors[0],))
        elif plan.get('out_big') and status == 'done':
            got = sorted(peer.big_seen)
            want = sorted((j, size, True) for j, size in enumerate(plan['out_big']))
            if got != want:
                V.add('C06/outgoing', 'multi-segment-request-garbled', 'requests of several segments sent concurrently: peer reassembled %r, sent %r'
                      % ([(a, b, 'intact' if c else 'ALTERED') for a, b, c in got], [(a, b) for a, b, c in want]))
    else:
        V.check('C06/detected')
        if conn is not None:
            if not conn.is_defunct:
                V.add('C06/detected', 'not-detected', 'bit flip at offset %d of %d-byte write (replies %r) did not defunct '
                      'the connection; delivered %r' % (flip[1], flip[2], flip[3], order_del))
            elif not isinstance(conn.last_error, cconn.CrcMismatchException):
                V.add('C06/detected', 'wrong-error', 'bit flip surfaced as %r instead of a CRC mismatch' % (conn.last_error,))
        if order_del != order_sent[:len(order_del)]:
            V.add('C06/no-altered', 'not-a-prefix', 'sent %r delivered %r' % (order_sent[:12], order_del[:12]))
        # replies whose bytes come at or after the flipped write must not be delivered
        bad = set(flip[3])
        after = False
        for k in order_sent:
            if k in bad:
                after = True
            if after and k in by_rid and k not in bad:
                V.add('C06/no-altered', 'delivered-after-corruption', 'rid %d delivered although it follows the corrupted segment' % k)
    if sim.crashes:
        V.add('C06/no-spurious' if not flip else 'C06/detected', 'thread-exception',
              'thread %s died: %s' % (sim.crashes[0][0], sim.crashes[0][1]))
    fc = w.net.fault_counts
    split = fc.get('split_delivery', 0) + fc.get('one_byte_chunks', 0)
    if split:
        sim.probe('split_delivery', split)
    p = sim.probes
    nontrivial = split > 0 and (p.get('multi_segment_message') or p.get('coalesced_segment') or
                                p.get('uncompressed_segment_on_compressed_conn') or p.get('bitflip'))
    return {'violations': V.items, 'rules_checked': V.checked, 'nontrivial': bool(nontrivial),
            'faults': dict(fc), 'summary': {'status': status, 'delivered': len(delivered), 'errors': len(errors)},
            'stratum': ('flip' if plan.get('flip') else 'clean') + ('+comp' if plan['compression'] else '')}
