"""C24 Reconnection schedules respect their delay bounds and attempt limits (W-FULL, virtual clock)."""
from dsim import seams
from dsim.core import HarnessError
from props.common import gen_strategy, quiet_logging, Violations
from worlds.full import FullWorld, default_cluster_spec

ID = 'C24'
TIERS = {'quick': {'runs': 7500, 'budget_s': 55, 'wall_cap': 150, 'block': 40},
         'thorough': {'runs': 200000, 'budget_s': 840, 'wall_cap': 300, 'block': 20}}
SHRINK_LISTS = []
COVERAGE_RULE = ('one run = real Cluster with ConstantReconnectionPolicy(delay, max_attempts) or '
                 'ExponentialReconnectionPolicy(base, max, max_attempts) (knobs drawn per run, max_attempts in {0,1,3,8,20,None}; '
                 'thorough tier also >= 1100 attempts so that 2**i overflows a float); a node crashes and stays down; every '
                 'reconnection attempt is a connect observed by the simulated network under the virtual clock; distinct = '
                 'event-log digest; non-trivial = at least 2 reconnection attempts were observed or the limit was 0/1')
RULES = {
    'C24/lower': 'the gap before attempt i is at least the schedule\'s lower bound (constant: the delay; exponential: max(base, 0.85*min(base*2^i, max)))',
    'C24/upper': 'the gap is at most min(max, 1.15*min(base*2^i, max)) (constant: the delay) plus 0.1 s scheduler poll plus 0.1 s',
    'C24/count': 'exactly max_attempts attempts are made, then none (0 means none); without a limit the attempts never stop',
    'C24/no-overflow': 'no exception escapes the schedule at large attempt indexes (2**i beyond float range)',
}
WORLD_INFO = {'real': ['ConstantReconnectionPolicy/ExponentialReconnectionPolicy.new_schedule', '_ReconnectionHandler/_HostReconnectionHandler',
                       '_Scheduler thread, Cluster.on_down/_start_reconnector'],
              'stub': ['libev C binding', 'sockets/TCP (connect log = attempts)', 'ThreadPoolExecutor', 'fake nodes', 'randint (driver PRNG stream)']}
ASSUMPTIONS = ['n delays => n attempts (_ReconnectionHandler.start consumes the first delay before the first attempt)',
               'a refused connect takes at most 0.04 s in the simulated network']
REQUIRED_PROBES = ['second_host_down', 'limit_reached', 'unlimited_schedule', 'exponential_capped_at_max', 'zero_attempts']


def prepare():
    seams.install_static()
    quiet_logging()


def gen_plan(rng, tier):
    kind = rng.choice(['constant', 'exponential', 'exponential'])
    limit = rng.choice([0, 1, 3, 8, 20, None])
    if rng.random() < (0.15 if tier == 'thorough' else 0.02):
        limit = rng.choice([1100, None])
        kind = 'exponential'
    if kind == 'constant':
        pol = {'kind': 'constant', 'delay': rng.choice([0.0, 0.05, 0.3, 1.0, 2.5]), 'max_attempts': limit}
    else:
        base = rng.choice([0.05, 0.2, 1.0])
        pol = {'kind': 'exponential', 'base': base, 'max': base * rng.choice([1, 2, 8, 50]), 'max_attempts': limit}
        if limit == 1100 or (limit is None and tier == 'thorough' and rng.random() < 0.3):
            # (base 0.0 is legal: the delay then never reaches the ceiling, and 0.0 * 2**1024 still overflows)
            pol['base'], pol['max'], pol['long'] = rng.choice([0.01, 0.01, 0.0]), 0.02, True
    return {'cluster': default_cluster_spec(3), 'version': 4, 'policy': pol, 'crash_at': rng.choice([0.2, 0.5]),
            'second_crash': (None if pol.get('long') else rng.choice([None, 0.0, 0.3, 2.0])),
            'announce': rng.choice([None, 0.01]), 'strategy': gen_strategy(rng), 'time_jump_p': 0}


def bounds(pol, i):
    if pol['kind'] == 'constant':
        return pol['delay'], pol['delay']
    try:
        e = min(pol['base'] * (2 ** i), pol['max'])
    except OverflowError:
        return pol['max'], pol['max']
    lo = min(max(pol['base'], 0.85 * e), pol['max'])
    hi = min(max(pol['base'], 1.15 * e), pol['max'])
    return lo, hi


def run_plan(plan, seed, choices=None):
    pol = plan['policy']
    limit = pol['max_attempts']
    n_expect = limit if limit is not None else (1200 if pol.get('long') else 12)
    total = sum(bounds(pol, i)[1] + 0.25 for i in range(min(n_expect + 1, 1300))) + 5.0
    w = FullWorld(plan, seed, choices, horizon=total + 30, step_cap=12000000)
    sim, fc = w.sim, w.fc
    st = {}

    def main():
        if pol['kind'] == 'constant':
            rp = w.cpol.ConstantReconnectionPolicy(pol['delay'], max_attempts=limit)
        else:
            rp = w.cpol.ExponentialReconnectionPolicy(pol['base'], pol['max'], max_attempts=limit)
        try:
            cluster = w.make_cluster(protocol_version=4, idle_heartbeat_interval=0, reconnection_policy=rp, connect_timeout=1)
            session = cluster.connect(wait_for_all_pools=True)
        except Exception as e:
            st['connect_error'] = repr(e)
            return
        w.session = session
        w.sleep(plan['crash_at'])
        fc.crash(1, how='rst', announce=plan['announce'])
        st['t_crash'] = sim.vnow()
        if plan.get('second_crash') is not None:
            # a second host goes down later: it must get a schedule of its own
            w.sleep(plan['second_crash'])
            fc.crash(2, how='rst', announce=plan['announce'])
            sim.probe('second_host_down')
        w.sleep(total)
        st['t_end'] = sim.vnow()

    w.spawn(main, 'main')
    status = w.run_until_users_done()
    if st.get('connect_error'):
        raise HarnessError('connect failed: %s' % st['connect_error'])
    V = Violations()
    crashed_nodes = [1] + ([2] if plan.get('second_crash') is not None else [])
    attempts = []
    for cn in crashed_nodes:
        addr = fc.nodes[cn].addr
        attempts = [s for s in w.net.all_socks if s.conn is not None and s.conn.addr[0] == addr and s.opened_t >= st.get('t_crash', 0) and
                    any('try_reconnect' in f for f in getattr(s, 'opened_stack', []))]
        attempts.sort(key=lambda s: s.opened_seq)
        downs = [e for e in w.recorder.events if e[2] == 'down' and e[3] == addr]
        t_down = downs[0][1] if downs else None
        prev_end = t_down
        for i, s in enumerate(attempts):
            lo, hi = bounds(pol, i)
            if prev_end is not None:
                gap = s.opened_t - prev_end
                V.check('C24/lower')
                if gap < lo - 1e-6 and i > 0:
                    V.add('C24/lower', 'attempt-too-early', 'attempt %d started %.4f s after the previous one ended; lower bound %.4f (%r)' % (i, gap, lo, pol))
                V.check('C24/upper')
                if gap > hi + 0.1 + 0.1 + (0.3 if i == 0 else 0.0):
                    V.add('C24/upper', 'attempt-too-late', 'attempt %d started %.4f s after the previous one ended; upper bound %.4f (+0.2) (%r)' % (i, gap, hi, pol))
            prev_end = s.closed_t if s.closed_t is not None else s.opened_t
            if pol['kind'] == 'exponential' and hi >= pol['max'] and pol['max'] > pol['base']:
                sim.probe('exponential_capped_at_max')
        V.check('C24/count')
        if status == 'done' and t_down is not None:
            if limit is not None:
                if len(attempts) != limit:
                    V.add('C24/count', 'wrong-number-of-attempts:limit-%s' % ('zero' if limit == 0 else 'n'),
                          '%d reconnection attempts were made with max_attempts=%d (%r); attempt times %r'
                          % (len(attempts), limit, pol, [round(s.opened_t, 3) for s in attempts[:12]]))
                else:
                    sim.probe('limit_reached' if limit else 'zero_attempts')
            else:
                sim.probe('unlimited_schedule')
                if len(attempts) < n_expect - 2:
                    V.add('C24/count', 'unlimited-schedule-stopped', 'only %d attempts in %.1f s with max_attempts=None (%r); last at %.3f'
                          % (len(attempts), total, pol, attempts[-1].opened_t if attempts else -1))
    V.check('C24/no-overflow')
    for cr in sim.crashes:
        V.add('C24/no-overflow', 'thread-exception', 'thread %s died: %s' % (cr[0], cr[1]))
    from props import common
    errs = [x for x in common.LOGS if x[0] == 'ERROR' and ('Overflow' in x[3] or 'overflow' in x[2])]
    if errs:
        V.add('C24/no-overflow', 'overflow-logged', repr(errs[0]))
    return {'violations': V.items, 'rules_checked': V.checked, 'nontrivial': len(attempts) >= 2 or limit in (0, 1),
            'faults': dict(w.net.fault_counts), 'summary': {'status': status, 'attempts': len(attempts), 'policy': pol},
            'stratum': pol['kind'] + ('-long' if pol.get('long') else '')}
