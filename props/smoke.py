"""W-FULL bring-up smoke (not a property): connect, queries, shutdown."""
from dsim import seams
from props.common import gen_strategy, quiet_logging, Violations
from worlds.full import FullWorld, default_cluster_spec

ID = 'SMOKE'
READY = False
TIERS = {'quick': {'runs': 200, 'budget_s': 30, 'wall_cap': 60, 'block': 50}}


def prepare():
    seams.install_static()
    quiet_logging()


def gen_plan(rng, tier):
    return {'cluster': default_cluster_spec(rng.choice([1, 2, 3]), release=rng.choice(['3.11.4', '4.0.1'])),
            'version': rng.choice([3, 4, 5]) , 'strategy': gen_strategy(rng), 'nreq': rng.choice([1, 6, 12])}


def run_plan(plan, seed, choices=None):
    if plan['version'] == 5:
        for n in plan['cluster']['nodes']:
            n['versions'] = [3, 4, 5]
    w = FullWorld(plan, seed, choices)
    V = Violations()
    out = w.results

    def user():
        cluster = w.make_cluster(protocol_version=plan['version'])
        session = cluster.connect(wait_for_all_pools=True)
        w.session = session
        out['hosts'] = sorted(str(h.endpoint.address) for h in cluster.metadata.all_hosts())
        out['ks'] = sorted(cluster.metadata.keyspaces)
        futs = [session.execute_async("SELECT * FROM ks1.t /*rid=%d*/" % i, timeout=2.0) for i in range(plan['nreq'])]
        res = []
        for i, f in enumerate(futs):
            row = f.result().one()
            res.append((i, row.rid, row.node))
        out['res'] = res
        cluster.shutdown()

    w.spawn(user, 'user')
    status = w.run_until_users_done()
    w.settle(2.0)
    out['open'] = len(w.open_sockets())
    if w.sim.crashes:
        V.add('SMOKE', 'crash', repr(w.sim.crashes[0][:2]) + w.sim.crashes[0][2][-800:])
    if len(out.get('hosts', [])) != len(plan['cluster']['nodes']):
        V.add('SMOKE', 'hosts', repr(out))
    if any(r[0] != r[1] for r in out.get('res', [(0, 1, 0)])):
        V.add('SMOKE', 'rows', repr(out))
    if w.fc.decode_errors:
        V.add('SMOKE', 'decode', repr(w.fc.decode_errors[:2]))
    return {'violations': V.items, 'summary': {'status': status, 'out': {k: out[k] for k in out if k != 'res'}},
            'nontrivial': True}
