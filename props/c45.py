"""C45 Shutdown releases every connection and stops accepting work (W-FULL)."""
from dsim import seams
from dsim.core import HarnessError, Deadlock
from props.common import gen_strategy, quiet_logging, Violations
from props.c12 import PoolRun, gen_pool_plan
from worlds.full import ReqObs

ID = 'C45'
TIERS = {'quick': {'runs': 9000, 'budget_s': 55, 'wall_cap': 120, 'block': 50},
         'thorough': {'runs': 300000, 'budget_s': 840, 'wall_cap': 120, 'block': 50}}
SHRINK_LISTS = ['requests', 'faults']
COVERAGE_RULE = ('one run = real Cluster/Session over 1-3 fake nodes with request traffic, node crashes/restarts (reconnection '
                 'and control-connection re-establishment in progress), connection replacement (small orphan threshold), slow '
                 'or refused connects; cluster.shutdown() or session.shutdown() is called from another thread at a drawn '
                 'instant - including while connect() is still running - and further requests follow; the socket log of the '
                 'simulated network is the oracle; distinct = event-log digest; non-trivial = shutdown overlapped a connect, '
                 'a reconnection, a replacement or in-flight requests')
RULES = {
    'C45/all-closed': 'by the end of the liveness window every socket the driver ever opened (control, pooled, replacement, trashed, '
                      'reconnection probes) is closed',
    'C45/no-new': 'no connect is started after shutdown() returned',
    'C45/refused': 'a request issued after shutdown fails promptly instead of staying pending',
    'C45/returns': 'shutdown() itself returns',
}
WORLD_INFO = {'real': ['Cluster.shutdown, Session.shutdown, ControlConnection.shutdown/_reconnect/_try_connect/_set_new_connection',
                       'HostConnection.shutdown/_replace, _HostReconnectionHandler, _Scheduler, ConnectionHeartbeat.stop',
                       'Session.add_or_renew_pool, Cluster.on_up/on_down'],
              'stub': ['libev C binding', 'sockets/TCP (socket log)', 'ThreadPoolExecutor (shutdown(wait=True) semantics mirrored)', 'fake nodes']}
ASSUMPTIONS = ['liveness window: 8 virtual seconds after shutdown returned (longer than connect_timeout 5 s)']
REQUIRED_PROBES = ['shutdown_during_connect', 'shutdown_with_inflight', 'shutdown_during_reconnection', 'request_after_shutdown']


def prepare():
    seams.install_static()
    quiet_logging()


def gen_plan(rng, tier):
    p = gen_pool_plan(rng, tier, True)
    n = len(p['cluster']['nodes'])
    p.pop('saturate', None)
    p['knobs'] = {'max_in_flight': rng.choice([8, 16]), 'orphaned_threshold': rng.choice([1, 2, 100])}
    k = rng.random()
    if k < 0.3:
        p['shutdown'] = {'what': 'cluster', 'during_connect': True, 'at': rng.choice([0.0, 0.002, 0.01, 0.03, 0.06]), 'after_requests': 0}
    else:
        p['shutdown'] = {'what': rng.choice(['cluster', 'cluster', 'session']), 'at': rng.choice([0.02, 0.1, 0.4, 1.0, 2.0]),
                         'after_requests': rng.choice([0, 1, 2])}
    if rng.random() < 0.4:
        node = rng.randrange(n)
        at = rng.choice([0.01, 0.05, 0.3])
        p['faults'].append({'at': at, 'kind': 'crash', 'node': node, 'how': rng.choice(['rst', 'blackhole']), 'announce': rng.choice([None, 0.02])})
        if rng.random() < 0.7:
            p['faults'].append({'at': at + rng.choice([0.2, 0.6, 1.2]), 'kind': 'restart', 'node': node, 'announce': rng.choice([None, 0.02])})
    if rng.random() < 0.3:
        p['slow_node'] = {'node': rng.randrange(n), 'mult': rng.choice([20, 100])}
    p['exec']['reconnect_delay'] = rng.choice([0.2, 0.5])
    if rng.random() < 0.5:
        # the session has a keyspace: every new pooled connection (also a replacement) issues USE before it is installed
        p['session_keyspace'] = 'ks1'
        p['use_delay'] = rng.choice([0.0, 0.02, 0.1, 0.4])
    p['tcp_rto'] = 30.0
    if n > 1 and not sd_during_connect(p) and rng.random() < 0.2:
        # a host comes back (slowly: its new pool takes a while to build), the session keyspace is switched while that pool is
        # being built, and shutdown arrives while the new pool is catching up with the switch
        node = rng.randrange(1, n)
        t_up = rng.choice([0.5, 0.8])
        t_sw = round(t_up + 0.02 + rng.choice([0.02, 0.05, 0.1, 0.2, 0.4]), 3)
        p['faults'] = [{'at': 0.05, 'kind': 'crash', 'node': node, 'how': 'rst', 'announce': 0.02},
                       {'at': t_up, 'kind': 'restart', 'node': node, 'announce': 0.01}]
        p['slow_node'] = {'node': node, 'mult': rng.choice([10, 30, 60])}
        p['session_keyspace'] = 'ks1'
        p['use_delay'] = rng.choice([0.0, 0.05, 0.2])
        p['switch'] = {'at': t_sw, 'ks': 'ks2'}
        p['cluster']['keyspaces'] = dict(p['cluster'].get('keyspaces') or {}, ks1={'class': 'org.apache.cassandra.locator.SimpleStrategy', 'replication_factor': '1'},
                                         ks2={'class': 'org.apache.cassandra.locator.SimpleStrategy', 'replication_factor': '1'})
        p['shutdown'] = {'what': rng.choice(['cluster', 'session']), 'at': round(t_sw + rng.choice([0.005, 0.02, 0.05, 0.1, 0.3]), 3),
                         'after_requests': rng.choice([0, 1])}
        if rng.random() < 0.6:
            p['shutdown'].update(on_catchup_use=True, after_use=rng.choice([0.001, 0.005, 0.02]))
            p['use_delay'] = rng.choice([0.05, 0.2])
        p['exec']['reconnect_delay'] = 5.0
        # (the UP event is acted on at once; with the default window of 2 s the host would come back after the shutdown)
        p['cluster_kw'] = dict(p.get('cluster_kw') or {}, status_event_refresh_window=0, topology_event_refresh_window=0)
    return p


def sd_during_connect(p):
    return bool(p.get('shutdown', {}).get('during_connect'))


class ShutdownRun(PoolRun):
    def main(self):
        plan, w = self.plan, self.w
        sd = plan['shutdown']
        if plan.get('slow_node'):
            w.net.slow[w.fc.nodes[plan['slow_node']['node']].addr] = plan['slow_node']['mult']
        if sd.get('during_connect'):
            w.spawn(self.early_shutter, 'shutter', sd)
        if plan.get('switch'):
            w.spawn(self.switcher, 'switcher', plan['switch'])
        PoolRun.main(self)

    def shutter_on_catchup(self, sd):
        # shutdown bound to the moment the returning host's new pool is catching up with the keyspace switch: its node has just
        # received USE <new keyspace> on a connection opened after the restart, the answer is still on its way
        w, sim = self.w, self.w.sim
        while not self.st.get('started') and not self.connect_error:
            w.sleep(0.01)
        node = w.fc.nodes[self.plan['slow_node']['node']]
        ks = self.plan['switch']['ks']
        end = sim.vnow() + 8.0
        while sim.vnow() < end:
            late = [nc for nc in node.conns if not nc.events and not nc.closed and any(k_ == ks for (_s, k_) in nc.use_log)
                    and nc.accepted_t > self.st.get('t_connected', 0) + 0.3]
            if late:
                sim.probe('shutdown_while_new_pool_catches_up_with_switch')
                break
            w.sleep(0.002)
        w.sleep(sd.get('after_use', 0.002))
        self.do_shutdown(sd)

    def switcher(self, sw):
        w = self.w
        while not self.st.get('started') and not self.connect_error:
            w.sleep(0.01)
        w.sleep(sw['at'])
        if w.session is None:
            return
        w.sim.probe('keyspace_switched_during_run')
        try:
            w.session.set_keyspace(sw['ks'])
        except Exception as e:
            self.st['switch_exc'] = repr(e)

    def early_shutter(self, sd):
        w, sim = self.w, self.w.sim
        while w.cluster is None and not self.connect_error:
            w.sleep(0.0005)
        w.sleep(sd['at'])
        if w.cluster is None:
            return
        sim.probe('shutdown_during_connect')
        self.st['shutdown_start'] = sim.nlog
        sim.rec('shutdown.start', 'cluster (during connect)')
        try:
            w.cluster.shutdown()
        except Exception as e:
            self.st['shutdown_exc'] = repr(e)
        self.st['shutdown_end'] = sim.nlog
        self.st['all_shutdown'] = sim.nlog
        self.st['t_shutdown'] = sim.vnow()
        sim.rec('shutdown.done', 'cluster')

    def shutter(self, sd):
        if sd.get('during_connect'):
            return
        if sd.get('on_catchup_use'):
            return self.shutter_on_catchup(sd)
        PoolRun.shutter(self, sd)

    def do_shutdown(self, sd):
        sim = self.w.sim
        reconnecting = any(h.is_up is False for h in self.w.cluster.metadata.all_hosts()) if self.w.cluster is not None else False
        if reconnecting:
            sim.probe('shutdown_during_reconnection')
        PoolRun.do_shutdown(self, sd)
        self.st['t_shutdown'] = sim.vnow()


def run_plan(plan, seed, choices=None):
    run = ShutdownRun(plan, seed, choices, horizon=80.0, step_cap=5000000)
    w, sim = run.w, run.w.sim
    sim.spin_limit = 1500
    sd = plan['shutdown']
    w.spawn(run.main, 'main')
    try:
        status = w.run_until_users_done()
    except Deadlock as e:
        # every thread is blocked for good: if shutdown() is among them that is C45/returns, not a harness matter
        status = 'deadlock'
        run.st['deadlock'] = str(e)
        if run.st.get('shutdown_start') is None or run.st.get('shutdown_end') is not None:
            raise
    if run.connect_error and not sd.get('during_connect'):
        raise HarnessError('connect failed: %s' % run.connect_error)
    if status == 'done':
        w.settle(8.0)
    if status != 'deadlock':
        w.drain()
    V = Violations()
    V.check('C45/returns')
    if run.st.get('shutdown_start') is not None and run.st.get('shutdown_end') is None:
        V.add('C45/returns', 'shutdown-did-not-return' + (':deadlock' if status == 'deadlock' else ''),
              'shutdown() was called (seq %d) and had not returned at the horizon (status %s%s)'
              % (run.st['shutdown_start'], status, ': ' + run.st['deadlock'] if run.st.get('deadlock') else ''))
    if run.st.get('shutdown_exc'):
        V.add('C45/returns', 'shutdown-raised', 'shutdown raised %s' % run.st['shutdown_exc'])
    end = run.st.get('all_shutdown')
    if end is not None and status == 'done':
        V.check('C45/all-closed')
        open_socks = [s for s in w.net.all_socks if not s.closed]
        if open_socks:
            s = open_socks[0]
            stack = getattr(s, 'opened_stack', [])
            origin = 'control-connection' if any('_try_connect' in f for f in stack) else \
                ('pool-replacement' if any('_replace' in f for f in stack) else
                 ('pool' if any(f.startswith('pool.py') and '__init__' in f for f in stack) else
                  ('reconnector' if any('try_reconnect' in f for f in stack) else 'other')))
            when = 'opened-before-shutdown' if s.opened_seq < (run.st.get('shutdown_start') or 0) else \
                ('opened-during-shutdown' if s.opened_seq < end else 'opened-after-shutdown')
            V.add('C45/all-closed', 'socket-left-open:%s:%s' % (origin, when),
                  '%d socket(s) still open %.0f s after shutdown; first: fd=%d to %s opened by %s at seq %d (shutdown %s..%s) via %s'
                  % (len(open_socks), 8.0, s.fd, s.conn.addr[0] if s.conn else '?', s.opened_by, s.opened_seq,
                     run.st.get('shutdown_start'), end, ' < '.join(stack[2:8])))
        V.check('C45/no-new')
        late = [s for s in w.net.all_socks if s.opened_seq > end]
        if late:
            s = late[0]
            V.add('C45/no-new', 'connect-after-shutdown', 'a connect to %s was started at seq %d, after shutdown had returned (seq %d), via %s'
                  % (s.conn.addr[0] if s.conn else '?', s.opened_seq, end, ' < '.join(getattr(s, 'opened_stack', [])[2:8])))
    for rid, o in sorted(run.obs.items()):
        if rid >= 800:
            sim.probe('request_after_shutdown')
            V.check('C45/refused')
            if o.result is None:
                V.add('C45/refused', 'request-pending-after-shutdown', 'request %d issued after shutdown never completed' % rid)
            elif o.result[0] == 'ok':
                V.add('C45/refused', 'request-served-after-shutdown', 'request %d issued after shutdown was served' % rid)
    for cr in sim.crashes:
        if not cr[0].startswith(('user', 'main', 'shutter')):
            V.add('C45/all-closed', 'thread-exception', 'thread %s died: %s' % (cr[0], cr[1]))
    nontrivial = bool(sim.probes.get('shutdown_during_connect') or sim.probes.get('shutdown_with_inflight') or
                      sim.probes.get('shutdown_during_reconnection'))
    return {'violations': V.items, 'rules_checked': V.checked, 'nontrivial': nontrivial,
            'faults': dict(w.net.fault_counts), 'states': [w.abstract_state()],
            'summary': {'status': status, 'sockets': len(w.net.all_socks), 'connect_error': run.connect_error},
            'stratum': 'during-connect' if sd.get('during_connect') else sd['what']}
