"""C21 Load-balancing plans reflect the live cluster membership (W-FULL histories + W-LBP direct histories with planner threads)."""
from dsim import seams
from dsim.core import HarnessError, Sim, SimThread, SimEvent
from dsim.net import SimNet
from props.common import gen_strategy, quiet_logging, Violations
from worlds.full import FullWorld

ID = 'C21'
TIERS = {'quick': {'runs': 18000, 'budget_s': 55, 'wall_cap': 120, 'block': 60},
         'thorough': {'runs': 600000, 'budget_s': 840, 'wall_cap': 200, 'block': 60}}
SHRINK_LISTS = ['events', 'policies']
COVERAGE_RULE = ('one run = 3-7 built-in policy instances (RoundRobin, DCAware with explicit/implicit local_dc and 0-2 hosts per remote '
                 'dc, WhiteList, HostFilter, TokenAware/Default wrappers) that receive one membership history. World "full": the '
                 'history is whatever the real Cluster/ControlConnection delivers while 3-6 fake nodes in 1-3 datacenters crash, '
                 'restart, join, leave and change dc/rack, and a profile is added at run time. World "lbp": the same calls issued '
                 'directly (populate as Cluster.connect / add_execution_profile do it, up/down/add/remove, relocation triple) for up '
                 'to 6 hosts, 3 dcs and 40 events, while 1-2 planner threads consume plans lazily with line-level pre-emption. '
                 'Every call a policy receives is logged by a recording subclass; an independent model replays the log; distinct = '
                 'event-log digest; non-trivial = at least one host left and one (re)joined a policy')
RULES = {
    'C21/no-dup': 'no plan yields a host twice (also for plans built while events land, unless a relocation landed in between)',
    'C21/exact': 'at a quiescent point the hosts of a plan are exactly the hosts the delivered history makes live and not excluded',
    'C21/dc-order': 'datacenter-aware: every live local host first, then per remote dc min(n, live) hosts of that dc',
    'C21/distance': 'every yielded host has distance != IGNORED, every live host with distance != IGNORED is yielded, local-dc hosts are '
                    'LOCAL, yielded remote hosts are REMOTE',
    'C21/excluded': 'white-list and filter policies never yield an excluded host and report it IGNORED',
    'C21/concurrent': 'a plan built while events land contains only hosts live at some instant of its window and every host live '
                      'throughout it (snapshot policies), and no exception escapes',
}
WORLD_INFO = {'real': ['RoundRobinPolicy, DCAwareRoundRobinPolicy, WhiteListRoundRobinPolicy, HostFilterPolicy, TokenAwarePolicy, '
                       'DefaultLoadBalancingPolicy', 'world full: Cluster/ControlConnection/ProfileManager delivering the events '
                       '(_refresh_node_list_and_token_map, _update_location_info, on_up/on_down/on_add/on_remove, add_execution_profile)'],
              'stub': ['world full: libev C binding, sockets/TCP, ThreadPoolExecutor, fake nodes', 'world lbp: the Cluster is replaced by the '
                       'generated call sequence (real Host and Metadata objects)']}
ASSUMPTIONS = ['populate(hosts) makes every given host live (that is how Cluster.add_execution_profile delivers down hosts too)',
               'which n hosts of a remote dc are used is the policy\'s choice; the oracle checks count, membership and agreement with distance()',
               'implicit local_dc: contact points lie in one datacenter (documented requirement)']
REQUIRED_PROBES = ['concurrent_membership_events', 'dc_relocation', 'profile_added_at_runtime', 'populate_interleaved_dcs', 'plan_during_event', 'remote_dc_used',
                   'implicit_local_dc_chosen']

LOCAL, REMOTE, IGNORED = 0, 1, -1


def prepare():
    seams.install_static()
    quiet_logging()


# ------------------------------------------------------------------------------------------------ plan generation
def gen_policy(rng, naddr, dcs):
    k = rng.random()
    if k < 0.2:
        base = {'kind': 'rr'}
    elif k < 0.75:
        base = {'kind': 'dc', 'local': rng.choice([dcs[0], dcs[0], '', dcs[-1]]), 'n': rng.choice([0, 1, 1, 2])}
    else:
        base = {'kind': 'wl', 'allowed': sorted(rng.sample(range(naddr), rng.randrange(1, naddr + 1)))}
    r = rng.random()
    if r < 0.2:
        base = {'kind': 'hf', 'child': base, 'excluded': sorted(rng.sample(range(naddr), rng.randrange(0, 3)))}
    elif r < 0.3:
        base = {'kind': 'ta', 'child': base}
    elif r < 0.42:
        base = {'kind': 'default', 'child': base, 'target': rng.choice([None, rng.randrange(naddr)])}
    return base


def gen_plan(rng, tier):
    world = 'full' if rng.random() < 0.25 else 'lbp'
    n = rng.choice([3, 4, 5, 6])
    ndc = rng.choice([1, 2, 2, 3, 3])
    dcs = ['dc%d' % (i + 1) for i in range(ndc)]
    # node 0 is the contact point; dc assignment deliberately interleaved
    node_dcs = [dcs[0]] + [rng.choice(dcs) for _ in range(n - 1)]
    nodes = [{'dc': node_dcs[i], 'rack': rng.choice(['r1', 'r2']), 'release': '3.11.4', 'versions': [3, 4]} for i in range(n)]
    nmember = n if rng.random() < 0.6 else rng.randrange(2, n + 1)
    for i in range(nmember, n):
        nodes[i]['member'] = False
    policies = [gen_policy(rng, n, dcs) for _ in range(rng.choice([3, 4, 5, 7]))]
    if not any(p_['kind'] == 'dc' for p_ in policies):
        policies[0] = {'kind': 'dc', 'local': dcs[0], 'n': rng.choice([0, 1, 2])}
    if world == 'full':
        # the control connection walks the default profile's plan: it must admit the contact point
        policies[0] = rng.choice([{'kind': 'rr'}, {'kind': 'dc', 'local': dcs[0], 'n': rng.choice([0, 1, 2])},
                                  {'kind': 'dc', 'local': '', 'n': rng.choice([0, 1])}])
    events = []
    t = 0.2
    kinds = ['crash', 'restart', 'crash', 'restart', 'leave', 'join', 'relocate', 'relocate', 'add_profile', 'rst_control']
    if world == 'lbp':
        kinds = ['down', 'up', 'down', 'up', 'remove', 'add', 'relocate', 'relocate', 'add_profile']
    for _ in range(rng.choice([2, 4, 8, 14, 25, 40] if world == 'lbp' else [1, 2, 4, 6, 9])):
        t += rng.choice([0.0, 0.0, 0.05, 0.4, 1.2]) if world == 'lbp' else rng.choice([0.05, 0.4, 1.2])
        ev = {'at': round(t, 3), 'kind': rng.choice(kinds), 'node': rng.randrange(n), 'dc': rng.choice(dcs), 'rack': rng.choice(['r1', 'r2']),
              'how': rng.choice(['rst', 'rst', 'blackhole']), 'announce': rng.choice([None, 0.01, 0.2])}
        if ev['kind'] == 'add_profile':
            ev['policy'] = gen_policy(rng, n, dcs)
        elif world == 'lbp' and ev['kind'] in ('down', 'up', 'remove', 'add') and n > 1 and rng.random() < 0.25:
            # a second membership event, for another host, delivered by another thread at the same time (the Cluster handles the
            # events of different hosts on different executor threads)
            other = rng.choice([x for x in range(n) if x != ev['node']])
            ev['with'] = {'kind': rng.choice(['down', 'up', 'remove', 'add']), 'node': other}
        events.append(ev)
    return {'world': world, 'cluster': {'nodes': nodes, 'keyspaces': {'ks1': {'class': 'org.apache.cassandra.locator.SimpleStrategy',
                                                                                 'replication_factor': '2'}}},
            'dcs': dcs, 'policies': policies, 'events': events, 'planners': rng.choice([0, 1, 2]), 'lazy': rng.choice([0, 0.02, 0.3]), 'init': rng.choice(['connect', 'profile']),
            'executor_threads': rng.choice([1, 2, 4]),
            'strategy': gen_strategy(rng), 'time_jump_p': rng.choice([0, 0.1, 0.3]) if world == 'full' else 0, 'line_p': rng.choice([0, 0.01, 0.05]), 'points': rng.choice([0, 2, 6])}


# ------------------------------------------------------------------------------------------------ recording subclasses + model
def addr_of(i):
    return '10.0.0.%d' % (i + 1)


def hinfo(h):
    return (str(h.endpoint.address), h.datacenter, h.rack, h.is_up)


def base_of(spec):
    excl = set()
    target = None
    while spec['kind'] in ('hf', 'ta', 'default'):
        if spec['kind'] == 'hf':
            excl |= set(addr_of(i) for i in spec['excluded'])
        if spec['kind'] == 'default' and spec.get('target') is not None:
            target = addr_of(spec['target'])
        spec = spec['child']
    return spec, excl, target


class PolicyUnderTest(object):
    """One policy instance, its call log and the reference state replayed from that log."""

    def __init__(self, spec, cpol, sim, label):
        self.spec = spec
        self.label = label
        self.sim = sim
        self.log = []            # (sim seq, op, payload)
        self.inflight = 0
        self.open_idx = []
        self.base, self.excluded, self.target = base_of(spec)
        self.policy = self._build(spec, cpol, outer=True)

    def _build(self, spec, cpol, outer=False):
        put = self

        def rec_class(cls):
            if not outer:
                return cls

            class Rec(cls):
                def populate(self, cluster, hosts):
                    hosts = list(hosts)
                    contact = [str(getattr(e, 'address', e)) for e in getattr(cluster, 'endpoints_resolved', [])]
                    _i = put._enter('populate', ([hinfo(h) for h in hosts], contact))
                    try:
                        return cls.populate(self, cluster, hosts)
                    finally:
                        put._exit(_i)

                def on_up(self, host):
                    _i = put._enter('up', hinfo(host))
                    try:
                        return cls.on_up(self, host)
                    finally:
                        put._exit(_i)

                def on_down(self, host):
                    _i = put._enter('down', hinfo(host))
                    try:
                        return cls.on_down(self, host)
                    finally:
                        put._exit(_i)

                def on_add(self, host):
                    _i = put._enter('add', hinfo(host))
                    try:
                        return cls.on_add(self, host)
                    finally:
                        put._exit(_i)

                def on_remove(self, host):
                    _i = put._enter('remove', hinfo(host))
                    try:
                        return cls.on_remove(self, host)
                    finally:
                        put._exit(_i)
            Rec.__name__ = 'Rec' + cls.__name__
            return Rec
        k = spec['kind']
        if k == 'rr':
            return rec_class(cpol.RoundRobinPolicy)()
        if k == 'dc':
            return rec_class(cpol.DCAwareRoundRobinPolicy)(local_dc=spec['local'], used_hosts_per_remote_dc=spec['n'])
        if k == 'wl':
            return rec_class(cpol.WhiteListRoundRobinPolicy)([addr_of(i) for i in spec['allowed']])
        child = self._build(spec['child'], cpol)
        if k == 'hf':
            excl = set(addr_of(i) for i in spec['excluded'])
            return rec_class(cpol.HostFilterPolicy)(child, lambda h: str(h.endpoint.address) not in excl)
        if k == 'ta':
            return rec_class(cpol.TokenAwarePolicy)(child)
        if k == 'default':
            return rec_class(cpol.DefaultLoadBalancingPolicy)(child)
        raise HarnessError('unknown policy kind %r' % k)

    def _enter(self, op, payload):
        self.inflight += 1
        self.log.append((self.sim.nlog, op, payload))
        idx = len(self.log) - 1
        self.open_idx.append(idx)
        return idx

    def _exit(self, idx):
        self.inflight -= 1
        self.open_idx.remove(idx)

    def reach_back(self):
        """How many log entries back the oldest call still executing lies (calls of several deliverer threads may overlap)."""
        return (len(self.log) - min(self.open_idx)) if self.open_idx else 0

    # ---- reference model: state after the first k log entries
    def state_at(self, k):
        base = self.base
        local_dc = base.get('local') if base['kind'] == 'dc' else None
        live = {}                # addr -> dc key it is filed under
        contact = []
        allowed = set(addr_of(i) for i in base['allowed']) if base['kind'] == 'wl' else None
        relocated = False

        def key(dc):
            return dc or (local_dc or '')
        for (_, op, payload) in self.log[:k]:
            if op == 'populate':
                infos, contact_ = payload
                live = {}
                for (a, dc, rack, up) in infos:
                    if allowed is None or a in allowed:
                        live[a] = key(dc)
                if base['kind'] == 'dc' and not local_dc:
                    contact = list(contact_)
            elif op in ('up', 'add'):
                a, dc, rack, up = payload
                if base['kind'] == 'dc' and not local_dc and dc and a in contact:
                    local_dc = dc
                    contact = []
                if allowed is None or a in allowed:
                    if a in live and live[a] != key(dc):
                        relocated = True
                    live[a] = key(dc)
            elif op in ('down', 'remove'):
                a, dc, rack, up = payload
                if a in live and live[a] != key(dc):
                    relocated = True
                live.pop(a, None)
        return {'live': live, 'local_dc': local_dc or '', 'relocated': relocated}

    def relocation_in(self, lo, hi):
        """Did a call of log[lo:hi] (or the one just before) file a host under another datacenter than the previous call about it?"""
        last = {}
        hit = False
        for idx, (_, op, payload) in enumerate(self.log[:hi]):
            infos = payload[0] if op == 'populate' else [payload]
            for (a, dc, rack, up) in infos:
                if a in last and last[a] != dc and idx >= lo - 1:
                    hit = True
                last[a] = dc
        return hit


def snapshot(put, hosts, cpol):
    """(plan addrs, distances) of one policy taken by the calling thread; None if an event landed meanwhile."""
    k0, f0 = len(put.log), put.inflight
    q = None
    if put.target is not None:
        q = _Q(put.target)
    md = getattr(put.policy, '_cluster_metadata', None)

    def target_state():
        # the metadata the policy itself consults (a host can leave it before the policy hears on_remove)
        t = md.get_host(put.target) if (md is not None and put.target is not None) else None
        return (t is not None, bool(t.is_up) if t is not None else False)
    up0 = target_state()
    plan = [str(h.endpoint.address) for h in put.policy.make_query_plan(None, q)]
    dist = dict((str(h.endpoint.address), put.policy.distance(h)) for h in hosts)
    info = dict((str(h.endpoint.address), hinfo(h)) for h in hosts)
    up1 = target_state()
    tgt_up = up1 == (True, True)
    if len(put.log) != k0 or f0 or put.inflight:
        return None
    if up0 != up1:
        return None              # the target's state moved while the plan was built (set_up follows policy.on_add/on_up)
    return k0, plan, dist, info, tgt_up


class _Q(object):
    keyspace = None
    routing_key = None

    def __init__(self, target):
        self.target_host = target


def check_snapshot(put, snap, V, sim, where):
    k, plan, dist, info, tgt_up = snap
    st = put.state_at(k)
    live, local_dc = st['live'], st['local_dc']
    base = put.base
    desc = lambda: 'policy %s %r after %d delivered calls (%s): plan %r, model live %r, local_dc %r' % (
        put.label, put.spec, k, [(e[1], e[2][0] if e[1] != 'populate' else [x[0][-1] for x in e[2][0]]) for e in put.log[max(0, k - 6):k]],
        plan, sorted(live.items()), local_dc)
    body = list(plan)
    excl = set(put.excluded)
    excl_dist = set(put.excluded)
    # DefaultLoadBalancingPolicy with a target: the target first when known and up, then the child's plan without it
    if put.target is not None and put.spec['kind'] == 'default':
        if tgt_up:              # Metadata.get_host(address) finds it (broadcast_rpc_address) and it is up
            V.check('C21/exact')
            if not plan or plan[0] != put.target:
                V.add('C21/exact', 'target-not-first', desc())
                return
            body = plan[1:]
            excl.add(put.target)
    V.check('C21/no-dup')
    if len(set(plan)) != len(plan):
        V.add('C21/no-dup', 'duplicate-host:%s' % base['kind'], desc())
        return
    V.check('C21/excluded')
    bad = [a for a in body if a in excl or (base['kind'] == 'wl' and a not in set(addr_of(i) for i in base['allowed']))]
    if bad:
        V.add('C21/excluded', 'excluded-host-yielded:%s' % put.spec['kind'], desc())
    for a in dist:
        if (a in excl_dist or (base['kind'] == 'wl' and a not in set(addr_of(i) for i in base['allowed']))) and dist[a] != IGNORED:
            V.add('C21/excluded', 'excluded-host-not-ignored:%s' % put.spec['kind'], 'host %s distance %r; ' % (a, dist[a]) + desc())
    if base['kind'] in ('rr', 'wl'):
        V.check('C21/exact')
        exp = set(a for a in live if a not in excl)
        if set(body) != exp:
            V.add('C21/exact', ('host-missing:' if exp - set(body) else 'extra-host:') + base['kind'], desc())
        V.check('C21/distance')
        for a in body:
            if dist.get(a, LOCAL) == IGNORED:
                V.add('C21/distance', 'yielded-host-ignored:' + base['kind'], 'host %s; ' % a + desc())
        return
    # ---- datacenter-aware
    if any(info.get(a, (a, 'x'))[1] is None for a in live):
        return                       # a live host without location yet (contact point before the first refresh): transient, not judged
    n = base['n']
    local = set(a for a, kdc in live.items() if kdc == local_dc)
    groups = {}
    for a, kdc in live.items():
        if kdc != local_dc:
            groups.setdefault(kdc, set()).add(a)
    V.check('C21/dc-order')
    exp_local = local - excl
    head = body[:len(exp_local)]
    if set(head) != exp_local:
        V.add('C21/dc-order', 'local-hosts-not-first-or-missing', desc())
        return
    tail = body[len(exp_local):]
    per = {}
    for a in tail:
        kdc = live.get(a)
        if kdc is None or kdc == local_dc:
            V.add('C21/exact', 'extra-host:dc', 'host %s is not a live remote host; ' % a + desc())
            return
        per.setdefault(kdc, []).append(a)
    for kdc, grp in groups.items():
        got = per.get(kdc, [])
        want = min(n, len(grp))
        if len(got) > want or (len(got) < want and not (grp & excl)):
            V.add('C21/dc-order', 'remote-count:%s' % ('too-many' if len(got) > want else 'too-few'),
                  'remote dc %s: %d hosts yielded, %d live, n=%d; ' % (kdc, len(got), len(grp), n) + desc())
            return
    if per:
        sim.probe('remote_dc_used')
    V.check('C21/distance')
    for a, d in dist.items():
        if a in excl_dist:
            continue
        i_dc = info[a][1]
        if i_dc is None:
            continue
        is_local = (i_dc == local_dc)
        if is_local and d != LOCAL:
            V.add('C21/distance', 'local-host-not-local', 'host %s (dc %s) distance %r; ' % (a, i_dc, d) + desc())
        elif not is_local and a in tail and d != REMOTE:
            V.add('C21/distance', 'yielded-remote-not-remote', 'host %s (dc %s) distance %r; ' % (a, i_dc, d) + desc())
        elif not is_local and a not in tail and d != IGNORED and a in live and not (groups.get(live[a], set()) & excl):
            V.add('C21/distance', 'usable-host-not-yielded', 'host %s (dc %s) distance %r but not in the plan; ' % (a, i_dc, d) + desc())
        elif not is_local and a not in live and d != IGNORED:
            V.add('C21/distance', 'dead-remote-not-ignored', 'host %s (dc %s) is not live but distance %r; ' % (a, i_dc, d) + desc())


def check_concurrent(put, rec, V, sim):
    """rec = (k_start, inflight_start, plan, k_end, exc)"""
    k0, f0, plan, k1, exc = rec
    V.check('C21/concurrent')
    if exc:
        V.add('C21/concurrent', 'planner-exception:%s' % exc.split('(')[0], 'policy %s %r: %s' % (put.label, put.spec, exc))
        return
    lo = max(0, k0 - f0)
    if lo == k1:
        return                    # quiescent plan: judged by the snapshot rules elsewhere
    sim.probe('plan_during_event')
    states = [put.state_at(i) for i in range(lo, k1 + 1)]
    relocated = put.relocation_in(lo, k1)
    base, excl = put.base, put.excluded
    if len(set(plan)) != len(plan) and not relocated:
        V.add('C21/no-dup', 'duplicate-host:%s:concurrent' % base['kind'],
              'policy %s %r: plan %r built while calls %r landed' % (put.label, put.spec, plan, [(e[1], e[2][0] if e[1] != 'populate' else '...') for e in put.log[lo:k1]]))
        return
    union = set()
    inter = None
    for s in states:
        if base['kind'] == 'dc':
            always = set(a for a, kdc in s['live'].items() if kdc == s['local_dc'])
            maybe = set(s['live']) if base['n'] else always
        else:
            always = maybe = set(s['live'])
        union |= maybe
        inter = always if inter is None else (inter & always)
    got = set(plan)
    if put.target is not None:
        got.discard(put.target)
        inter = (inter or set()) - set([put.target])
    if got - union:
        V.add('C21/concurrent', 'host-never-live-in-window:' + base['kind'],
              'policy %s %r: plan %r contains %r, live during the window only %r' % (put.label, put.spec, plan, sorted(got - union), sorted(union)))
    elif base['kind'] in ('rr', 'wl') and (inter - excl) - got:
        V.add('C21/concurrent', 'host-live-throughout-missing:' + base['kind'],
              'policy %s %r: plan %r lacks %r which were live throughout the window (calls %r)'
              % (put.label, put.spec, plan, sorted((inter - excl) - got), [(e[1], e[2][0] if e[1] != 'populate' else '...') for e in put.log[lo:k1]]))


def planner_loop(sim, puts, records, stop, sleep, now, times, burst, gap, lazy, gate=None):
    """Wake at every planned event instant (so that planner and event delivery are runnable together) and build `burst` plans `gap`
    seconds apart; every third plan is consumed lazily (a pause after the first host, as a request that moves on to its next host later)."""
    i = 0
    for t in times:
        if stop[0]:
            break
        if gate is not None:
            gate.wait(5.0)         # released by the driver thread right before it delivers the next event
            gate.clear()
        else:
            d = t - now()
            if d > 0:
                sleep(d)
        for b in range(burst):
            if stop[0] or not puts:
                break
            put = puts[i % len(puts)]
            i += 1
            k0, f0 = len(put.log), put.reach_back()
            plan, exc = [], None
            try:
                q = _Q(put.target) if put.target is not None else None
                for h in put.policy.make_query_plan(None, q):
                    plan.append(str(h.endpoint.address))
                    if lazy and i % 3 == 0 and len(plan) == 1:
                        sleep(lazy)
            except Exception as e:
                exc = repr(e)
            records.append((put, (k0, f0, plan, len(put.log), exc)))
            if gap:
                sleep(gap)


def line_funcs(cpol):
    P = cpol
    return [P.RoundRobinPolicy.make_query_plan, P.RoundRobinPolicy.on_up, P.RoundRobinPolicy.on_down,
            P.DCAwareRoundRobinPolicy.make_query_plan, P.DCAwareRoundRobinPolicy.on_up, P.DCAwareRoundRobinPolicy.on_down,
            P.DCAwareRoundRobinPolicy.populate, P.HostFilterPolicy.make_query_plan, P.DefaultLoadBalancingPolicy.make_query_plan,
            P.TokenAwarePolicy.make_query_plan, P.WhiteListRoundRobinPolicy.on_up]


# ------------------------------------------------------------------------------------------------ world lbp
class _ClusterStub(object):
    def __init__(self, metadata, endpoints):
        self.metadata = metadata
        self.endpoints_resolved = endpoints


def run_lbp(plan, seed, choices):
    sim = Sim(seed, strategy=plan.get('strategy'), step_cap=3000000, horizon=400.0, choices=choices)
    net = SimNet(sim)
    M = seams.install_run(sim, net)
    cpol, cpool, cconn, cmeta, ccl = M['cpol'], M['cpool'], M['cconn'], M['cmeta'], M['ccl']
    sleep = ccl.time.sleep
    nodes = plan['cluster']['nodes']
    n = len(nodes)
    md = cmeta.Metadata()
    eps = [cconn.DefaultEndPoint(addr_of(i), 9042) for i in range(n)]
    hosts = {}
    puts = []
    records = []
    stop = [False]
    V = Violations()
    stat = {'joined': 0, 'left': 0}

    def known():
        return [hosts[i] for i in sorted(hosts)]

    def deliver(op, host):
        for put in list(puts):
            getattr(put.policy, op)(host)
        if op in ('on_up', 'on_add'):
            stat['joined'] += 1
        else:
            stat['left'] += 1

    def check_all(where):
        for put in puts:
            snap = snapshot(put, known(), cpol)
            if snap is not None:
                check_snapshot(put, snap, V, sim, where)

    def new_host(i, with_location=True):
        h = cpool.Host(eps[i], cpol.SimpleConvictionPolicy, datacenter=nodes[i]['dc'] if with_location else None,
                       rack=nodes[i]['rack'] if with_location else None)
        h.set_up()
        h.broadcast_rpc_address = addr_of(i)
        hosts[i] = h
        md.add_or_return_host(h)
        return h

    def relocate(i, dc, rack):
        h = hosts[i]
        if h.datacenter == dc and h.rack == rack:
            return
        # ControlConnection._update_location_info
        was = h.datacenter
        for put in list(puts):
            put.policy.on_down(h)
        h.set_location_info(dc, rack)
        for put in list(puts):
            put.policy.on_up(h)
        if was is not None and was != dc:
            sim.probe('dc_relocation')

    def populate_like_add_profile(put):
        hs = known()
        dseq = [h.datacenter for h in hs]
        seen, prev, inter = set(), None, False
        for d in dseq:
            if d != prev and d in seen:
                inter = True
            seen.add(d)
            prev = d
        if inter:
            sim.probe('populate_interleaved_dcs')
        put.policy.populate(stub, hs)
        for h in hs:
            if h.is_up:
                put.policy.on_up(h)

    members = [i for i in range(n) if nodes[i].get('member', True)]
    stub = _ClusterStub(md, [eps[0]])

    gates = []

    def driver():
        for pi, spec in enumerate(plan['policies']):
            puts.append(PolicyUnderTest(spec, cpol, sim, 'p%d' % pi))
        if plan['init'] == 'connect':
            # Cluster.connect: populate with the contact point (no location yet), then the first refresh: location triple for the
            # contact point, on_add for every other peer
            new_host(0, with_location=False)
            for put in puts:
                put.policy.populate(stub, known())
            relocate(0, nodes[0]['dc'], nodes[0]['rack'])
            for i in members[1:]:
                h = new_host(i)
                deliver('on_add', h)
        else:
            for i in members:
                new_host(i)
            for put in puts:
                populate_like_add_profile(put)
        check_all('init')
        t_prev = 0.0
        for ei, ev in enumerate(plan['events']):
            sleep(max(0.0, ev['at'] - t_prev))
            t_prev = ev['at']
            for g in gates:
                g.set()
            helper = None
            if ev.get('with'):
                sim.probe('concurrent_membership_events')
                helper = SimThread(target=apply_event, name='deliverer%d' % ei, args=(ev['with'], ei))
                helper.start()
            apply_event(ev, ei)
            if helper is not None:
                helper.join()
            check_all('ev%d' % ei)
        stop[0] = True
        for g in gates:
            g.set()

    def apply_event(ev, ei):
        if True:
            i, k = ev['node'], ev['kind']
            h = hosts.get(i)
            if k == 'down' and h is not None and h.is_up:
                h.set_down()
                deliver('on_down', h)
            elif k == 'up' and h is not None and not h.is_up:
                deliver('on_up', h)       # Cluster.on_up tells the policies before the host is marked up
                h.set_up()
            elif k == 'remove' and h is not None and i != 0:
                h.set_down()
                md.remove_host(h)
                del hosts[i]
                deliver('on_remove', h)
            elif k == 'add' and h is None:
                h = new_host(i)
                deliver('on_add', h)
            elif k == 'relocate' and h is not None:
                relocate(i, ev['dc'], ev['rack'])
            elif k == 'add_profile':
                put = PolicyUnderTest(ev['policy'], cpol, sim, 'q%d' % ei)
                populate_like_add_profile(put)
                puts.append(put)
                sim.probe('profile_added_at_runtime')

    if plan.get('line_p') or plan.get('points'):
        sim.enable_line_preemption(line_funcs(cpol), p=plan.get('line_p', 0), points=plan.get('points', 0), est_lines=3000)
    threads = [SimThread(target=driver, name='driver')]
    for pi in range(plan.get('planners', 0)):
        gate = SimEvent()
        gates.append(gate)
        threads.append(SimThread(target=lambda gate=gate: planner_loop(sim, puts, records, stop, sleep, None, plan['events'], 3, 0,
                                                                       plan.get('lazy', 0), gate), name='planner%d' % pi))
    for t in threads:
        t.start()
    status = sim.run(until=lambda: all(t.state == 'done' for t in threads))
    for (put, rec) in records:
        check_concurrent(put, rec, V, sim)
    for put in puts:
        if put.base['kind'] == 'dc' and not put.base['local'] and put.state_at(len(put.log))['local_dc']:
            sim.probe('implicit_local_dc_chosen')
    for cr in sim.crashes:
        V.add('C21/concurrent', 'thread-exception', 'thread %s died: %s' % (cr[0], cr[1]))
    return {'violations': V.items, 'rules_checked': V.checked, 'nontrivial': stat['joined'] > 0 and stat['left'] > 0,
            'faults': {}, 'summary': {'status': status, 'policies': len(puts), 'plans': len(records)}, 'stratum': 'lbp'}


# ------------------------------------------------------------------------------------------------ world full
def run_full(plan, seed, choices):
    t_last = max([e['at'] for e in plan['events']] + [0.5])
    w = FullWorld(plan, seed, choices, horizon=t_last + 60.0, step_cap=6000000)
    sim, fc, cpol, ccl = w.sim, w.fc, w.cpol, w.ccl
    sim.spin_limit = 1500
    puts = []
    records = []
    stop = [False]
    V = Violations()
    st = {}
    stat = {'joined': 0, 'left': 0}

    def known():
        return sorted(w.cluster.metadata.all_hosts(), key=lambda h: str(h.endpoint.address))

    def check_all(where):
        for put in list(puts):
            snap = snapshot(put, known(), cpol)
            if snap is not None:
                check_snapshot(put, snap, V, sim, where)

    def apply(ev, ei):
        i, k = ev['node'], ev['kind']
        node = fc.nodes[i]
        if k == 'crash' and node.up and i != 0:
            fc.crash(i, how=ev['how'], announce=ev['announce'])
        elif k == 'restart' and not node.up:
            fc.restart(i, announce=ev['announce'] if ev['announce'] is not None else 0.05)
        elif k == 'leave' and i != 0 and node in fc.members:
            fc.remove_member(i, announce=0.0)
        elif k == 'join' and node not in fc.members:
            if not node.up:
                fc.restart(i)
            fc.add_member(i, announce=0.0)
        elif k == 'relocate':
            if (node.dc, node.rack) != (ev['dc'], ev['rack']) and (i != 0 or not any(
                    p_.base['kind'] == 'dc' and not p_.base['local'] for p_ in puts)):
                node.dc, node.rack = ev['dc'], ev['rack']
                fc.snapshot_id += 1
                fc.announce(i, 'TOPOLOGY_CHANGE', 'MOVED_NODE', delay=0.0)
                st['relocated'] = True
        elif k == 'rst_control':
            fc.rst_conns(0, 'control')

    def main():
        for pi, spec in enumerate(plan['policies']):
            puts.append(PolicyUnderTest(spec, cpol, sim, 'p%d' % pi))
        profiles = {}
        for pi, put in enumerate(puts):
            name = ccl.EXEC_PROFILE_DEFAULT if pi == 0 else 'p%d' % pi
            profiles[name] = ccl.ExecutionProfile(load_balancing_policy=put.policy, request_timeout=2.0)
        try:
            cluster = w.make_cluster(protocol_version=4, idle_heartbeat_interval=2.0, idle_heartbeat_timeout=1.0, execution_profiles=profiles,
                                     executor_threads=plan['executor_threads'], connect_timeout=1,
                                     status_event_refresh_window=0.2, topology_event_refresh_window=0.2,
                                     reconnection_policy=cpol.ConstantReconnectionPolicy(0.5, max_attempts=None))
            w.session = cluster.connect()
        except Exception as e:
            st['connect_error'] = repr(e)
            return
        w.sleep(0.15)
        check_all('init')
        st['t0'] = sim.now
        for ei, ev in enumerate(plan['events']):
            sim.at(ev['at'], (lambda ev=ev, ei=ei: apply(ev, ei)), 'plan %s n%d' % (ev['kind'], ev['node']))
        t_prev = 0.0
        for ei, ev in enumerate(plan['events']):
            w.sleep(max(0.0, ev['at'] - t_prev) + 0.001)
            t_prev = ev['at']
            if ev['kind'] == 'add_profile':
                put = PolicyUnderTest(ev['policy'], cpol, sim, 'q%d' % ei)
                hs = known()
                dseq, seen, prev = [h.datacenter for h in hs], set(), None
                for d in dseq:
                    if d != prev and d in seen:
                        sim.probe('populate_interleaved_dcs')
                    seen.add(d)
                    prev = d
                try:
                    cluster.add_execution_profile('q%d' % ei, ccl.ExecutionProfile(load_balancing_policy=put.policy, request_timeout=2.0),
                                                  pool_wait_timeout=0.5)
                except Exception as e:
                    st.setdefault('add_profile_errors', []).append(repr(e))
                puts.append(put)
                sim.probe('profile_added_at_runtime')
            check_all('ev%d' % ei)
        w.sleep(2.0)
        check_all('late')
        # heal and look once more when everything is quiet
        for i, node in enumerate(fc.nodes):
            if not node.up:
                fc.restart(i, announce=0.05)
        w.sleep(6.0)
        check_all('end')
        stop[0] = True

    if plan.get('line_p') or plan.get('points'):
        C = ccl.ControlConnection
        sim.enable_line_preemption(line_funcs(cpol) + [C._update_location_info], p=plan.get('line_p', 0), points=plan.get('points', 0), est_lines=4000)
    w.spawn(main, 'main')
    for pi in range(plan.get('planners', 0)):
        w.spawn(lambda: (w.sleep(0.3), planner_loop(sim, puts, records, stop, w.sleep, lambda: sim.now - st.get('t0', sim.now),
                                                    [e['at'] for e in plan['events']], 40, 0.004, plan.get('lazy', 0))), 'planner%d' % pi)
    status = w.run_until_users_done()
    if st.get('connect_error'):
        raise HarnessError('connect failed: %s' % st['connect_error'])
    for (put, rec) in records:
        check_concurrent(put, rec, V, sim)
    for put in puts:
        ops = [e[1] for e in put.log]
        if 'down' in ops or 'remove' in ops:
            stat['left'] += 1
        if ops.count('up') + ops.count('add') > 0:
            stat['joined'] += 1
        if put.base['kind'] == 'dc' and not put.base['local'] and put.state_at(len(put.log))['local_dc']:
            sim.probe('implicit_local_dc_chosen')
        if any(put.state_at(k_)['relocated'] for k_ in (len(put.log),)) or st.get('relocated'):
            pass
    if st.get('relocated') and any(e[1] == 'down' and e[2][3] for put in puts for e in put.log):
        sim.probe('dc_relocation')
    for cr in sim.crashes:
        if not cr[0].startswith('main'):
            V.add('C21/concurrent', 'thread-exception', 'thread %s died: %s' % (cr[0], cr[1]))
    if status != 'done':
        raise HarnessError('run did not finish: %s' % status)
    return {'violations': V.items, 'rules_checked': V.checked, 'nontrivial': stat['joined'] > 0 and stat['left'] > 0,
            'faults': dict(w.net.fault_counts), 'states': [w.abstract_state()],
            'summary': {'status': status, 'policies': len(puts), 'plans': len(records), 'add_profile_errors': st.get('add_profile_errors')},
            'stratum': 'full'}


def run_plan(plan, seed, choices=None):
    if plan['world'] == 'lbp':
        return run_lbp(plan, seed, choices)
    return run_full(plan, seed, choices)
