"""C43 Schema agreement is reported only when all live nodes agree (W-FULL)."""
import uuid

from dsim import seams
from dsim.core import HarnessError
from props.common import set_knob, gen_strategy, quiet_logging, Violations
from worlds.full import FullWorld, ReqObs

ID = 'C43'
TIERS = {'quick': {'runs': 9000, 'budget_s': 55, 'wall_cap': 120, 'block': 50},
         'thorough': {'runs': 300000, 'budget_s': 840, 'wall_cap': 120, 'block': 50}}
SHRINK_LISTS = ['ddls']
COVERAGE_RULE = ('one run = real Cluster/ControlConnection over 2-4 fake nodes (one possibly in a remote dc ignored by the '
                 'load-balancing policy, so its Host.is_up stays None; one possibly crashed and marked down); '
                 'max_schema_agreement_wait W in [0.5, 5] s; 1-3 schema-changing statements: the coordinator switches to a new '
                 'schema version at once, every other node after its own delay (or never); poll replies may be slow, or the control node may leave every '
                 'poll of (part of) a wait unanswered so that they time out (control_connection_timeout 0.3-2 s); the request '
                 'timeout may be shorter than W; also cluster.refresh_schema_metadata(W); every poll served by the control node is '
                 'logged; distinct = event-log digest; non-trivial = at least one poll saw disagreeing versions')
RULES = {
    'C43/true-sound': 'agreement is reported only if some poll served during the wait showed one version across the control node '
                      'and every known peer not marked down',
    'C43/false-complete': 'disagreement is reported only after at least W seconds, and not if a poll served well before W agreed',
    'C43/recorded': 'a schema-changing request records (is_schema_agreed) whether agreement was reached, also when its client timeout fires during the wait',
}
WORLD_INFO = {'real': ['ControlConnection.wait_for_schema_agreement/_get_schema_mismatches/refresh_schema', 'refresh_schema_and_set_result, '
                       'ResponseFuture.is_schema_agreed/_on_timeout', 'Cluster.refresh_schema_metadata'],
              'stub': ['libev C binding', 'sockets/TCP', 'ThreadPoolExecutor', 'fake nodes with per-node schema version timelines']}
ASSUMPTIONS = ['poll replies are delayed (less than control_connection_timeout) or, during a blackout window, not sent at all and not logged as served: a served poll is a seen poll',
               'a node crashed (RST, gossip DOWN event) 1.5 s before the first statement counts as marked down; this is checked on Host.is_up']
REQUIRED_PROBES = ['peer_came_up_during_wait', 'disagreeing_poll', 'agreement_after_wait', 'wait_exhausted', 'peer_with_unknown_liveness', 'peer_marked_down',
                   'client_timeout_during_wait', 'every_poll_unanswered']


def prepare():
    seams.install_static()
    quiet_logging()


def gen_plan(rng, tier):
    n = rng.choice([2, 3, 4])
    nodes = [{'dc': 'dc1', 'rack': 'r1', 'release': rng.choice(['3.11.4', '4.0.1']), 'versions': [3, 4]} for _ in range(n)]
    ignored = None
    if n >= 3 and rng.random() < 0.4:
        ignored = n - 1
        nodes[ignored]['dc'] = 'dc2'
    down = None
    if n >= 3 and rng.random() < 0.35:
        down = 1
    W = rng.choice([0.5, 1.0, 2.0, 5.0])
    ddls = []
    for k in range(rng.choice([1, 1, 2, 3])):
        lag = {}
        for i in range(n):
            lag[str(i)] = rng.choice([0.0, 0.05, 0.3, W * 0.6, W * 0.9, W * 1.5, None])
        ddls.append({'via': rng.choice(['ddl', 'ddl', 'ddl', 'refresh']), 'coordinator': 0, 'lag': lag,
                     'timeout': rng.choice([10.0, 10.0, W * 0.5, W + 1.0])})
    for nd in nodes:
        nd['release'] = nodes[0]['release']
    mid = None
    if down is not None and rng.random() < 0.6:
        # the node that is down when the waits begin comes back during one of them (UP event), still on its old schema version,
        # while the other nodes converge only later in that wait
        k = rng.randrange(len(ddls))
        mid = {'ddl': k, 'at': round(rng.choice([0.1, 0.2, 0.4]) * W, 3)}
        for i in range(n):
            if i not in (0, down):
                ddls[k]['lag'][str(i)] = round(rng.choice([0.5, 0.6, 0.75]) * W, 3)
        ddls[k]['timeout'] = 10.0
    slow_polls = rng.choice([1, 1, 10, 40])
    ctl_timeout = 2.0
    if mid is None and rng.random() < 0.3:
        # the control node stays connected but leaves the schema-version polls unanswered: for the whole wait (no snapshot is ever
        # seen), for its first part, or for its last part; the polls then time out after control_connection_timeout each
        ctl_timeout = rng.choice([1.0, 2.0] if slow_polls >= 10 else [0.3, 1.0, 2.0])
        d = rng.choice(ddls)
        kind = rng.choice(['whole', 'whole', 'head', 'tail'])
        d['blackout'] = {'whole': {'after': 0.0, 'for': W + 0.5}, 'head': {'after': 0.0, 'for': round(W * 0.5, 3)},
                         'tail': {'after': round(W * 0.3, 3), 'for': W + 0.5}}[kind]
        d['timeout'] = rng.choice([10.0, 10.0, W + 1.0])
    return {'cluster': {'nodes': nodes}, 'version': 4, 'W': W, 'ignored': ignored, 'down': down, 'mid_restart': mid, 'ddls': ddls,
            'slow_polls': slow_polls, 'ctl_timeout': ctl_timeout, 'strategy': gen_strategy(rng), 'time_jump_p': 0}


def run_plan(plan, seed, choices=None):
    W = plan['W']
    w = FullWorld(plan, seed, choices, horizon=150.0, step_cap=4000000)
    sim, fc = w.sim, w.fc
    st = {'waits': []}
    V = Violations()
    gen = [100]

    def new_version():
        gen[0] += 1
        return uuid.UUID(int=gen[0])

    def start_ddl(d, coordinator):
        v = new_version()
        coordinator.schema_version = v
        sim.rec('schema', 'n%d -> v%d' % (coordinator.idx, gen[0]))
        bo = d.get('blackout')
        if bo:
            drop = (0, 'system.')
            sim.at(bo['after'], (lambda: (fc.sys_drops.append(drop), w.net.count('poll_blackout'))), 'poll blackout begins')
            sim.at(bo['after'] + bo['for'], (lambda: fc.sys_drops.remove(drop) if drop in fc.sys_drops else None), 'poll blackout ends')
        for i, n in enumerate(fc.nodes):
            if n is coordinator or not n.up:
                continue
            lag = d['lag'].get(str(i))
            if lag is None:
                continue
            sim.at(lag, (lambda n=n, v=v: setattr(n, 'schema_version', v)), 'schema converge n%d' % i)
        return v

    timeline = []        # (seq, address, is_up) for every Host.set_up / set_down the driver performs
    for name, val in (('set_up', True), ('set_down', False)):
        orig = getattr(w.cpool.Host, name)

        def wrapper(self_, *a, _orig=orig, _val=val, **k):
            r = _orig(self_, *a, **k)
            timeline.append((sim.nlog, str(self_.endpoint.address), _val))
            sim.rec('host.state', '%s %s' % (self_.endpoint.address, 'up' if _val else 'down'))
            return r
        set_knob(w.cpool.Host, name, wrapper)

    def main():
        lbp = w.cpol.DCAwareRoundRobinPolicy(local_dc='dc1', used_hosts_per_remote_dc=0)
        try:
            cluster = w.make_cluster(protocol_version=4, idle_heartbeat_interval=0, profile={'lbp': lbp, 'timeout': 10.0},
                                     max_schema_agreement_wait=W, control_connection_timeout=plan.get('ctl_timeout', 2.0), status_event_refresh_window=0, topology_event_refresh_window=0,
                                     schema_event_refresh_window=-1,
                                     reconnection_policy=w.cpol.ConstantReconnectionPolicy(500.0, max_attempts=None))
            session = cluster.connect(wait_for_all_pools=True)
        except Exception as e:
            st['connect_error'] = repr(e)
            return
        w.session = session
        if plan['down'] is not None:
            fc.crash(plan['down'], how='rst', announce=0.01)
            w.sleep(1.5)
        hosts = dict((str(h.endpoint.address), h) for h in cluster.metadata.all_hosts())
        st['is_up'] = dict((a, h.is_up) for a, h in hosts.items())
        st['is_up_seq'] = sim.nlog
        w.net.slow[fc.nodes[0].addr] = plan['slow_polls']
        for k, d in enumerate(plan['ddls']):
            rec = {'k': k, 'via': d['via'], 't0': sim.vnow(), 'seq0': sim.nlog, 'timeout': d['timeout']}
            st['waits'].append(rec)
            mr = plan.get('mid_restart')
            if mr and mr['ddl'] == k and plan['down'] is not None:
                sim.at(mr['at'], (lambda: (fc.restart(plan['down'], announce=0.0), sim.probe('peer_came_up_during_wait'))), 'mid-wait restart')
            if d['via'] == 'ddl':
                rid = 100 + k
                fc.scripts[rid] = [{'kind': 'schema_change', 'delay': 0.002, 'target': 'TABLE', 'keyspace': 'ks1', 'name': 't%d' % k}]
                hook = (lambda node, r, beh, d=d, rec=rec, rid=rid: (r == rid) and rec.update(version=start_ddl(d, node), t_ddl=sim.vnow(), seq_ddl=sim.nlog))
                fc.ddl_hooks.append(hook)
                o = ReqObs(w, rid)
                try:
                    o.start(session, "CREATE TABLE ks1.t%d (k int primary key) /*rid=%d*/" % (k, rid), timeout=d['timeout'],
                            host=hosts.get(fc.nodes[0].addr))
                    o.wait()
                except Exception as e:
                    o.result = ('err', type(e).__name__, str(e)[:200])
                fc.ddl_hooks.remove(hook)
                rec['t1'] = sim.vnow()
                rec['seq1'] = sim.nlog
                rec['outcome'] = o.result
                rec['agreed_flag'] = getattr(o.future, 'is_schema_agreed', None) if o.future is not None else None
                rec['exc_text'] = o.calls[0][3][1] if o.calls and o.calls[0][2] == 'eb' else ''
            else:
                rec['version'] = start_ddl(d, fc.nodes[0])
                rec['t_ddl'] = sim.vnow()
                rec['seq_ddl'] = sim.nlog
                try:
                    cluster.refresh_schema_metadata(max_schema_agreement_wait=W)
                    rec['outcome'] = ('ok',)
                except Exception as e:
                    rec['outcome'] = ('err', type(e).__name__, str(e)[:200])
                rec['t1'] = sim.vnow()
                rec['seq1'] = sim.nlog
            # let every node converge before the next statement
            w.sleep(W * 1.6 + 0.5)
            v_now = fc.nodes[0].schema_version
            for n in fc.nodes:
                n.schema_version = v_now
            w.sleep(0.3)
        try:
            cluster.shutdown()
        except Exception:
            pass

    w.spawn(main, 'main')
    status = w.run_until_users_done()
    if st.get('connect_error'):
        raise HarnessError('connect failed: %s' % st['connect_error'])
    if status != 'done':
        V.add('C43/false-complete', 'run-did-not-finish', 'status %s' % status)
    is_up = st.get('is_up', {})
    down_addrs = set(a for a, u in is_up.items() if u is False)
    if plan['down'] is not None:
        if fc.nodes[plan['down']].addr in down_addrs:
            sim.probe('peer_marked_down')
    if any(u is None for u in is_up.values()):
        sim.probe('peer_with_unknown_liveness')
    # pair up the polls served by the control node
    polls = [p for p in fc.polls if p[1] == 0]
    pairs = []
    # the driver sends (peers, local) together: a peers poll is paired with the local poll served next
    pending_peers = None
    for p in polls:
        if p[2] == 'peers':
            pending_peers = p
        elif p[2] == 'local' and pending_peers is not None:
            pairs.append((max(p[0], pending_peers[0]), p[3], pending_peers[3]))
            pending_peers = None
    seq_time = {}
    for e in fc.nodes[0].log:
        seq_time[e['seq']] = e['t']

    def down_at(seq):
        d = set(down_addrs)
        for (sq, a, up) in timeline:
            if sq <= st.get('is_up_seq', 0):
                continue
            if sq > seq:
                break
            if up:
                d.discard(a)
            else:
                d.add(a)
        return d

    def agrees_under(pair, down):
        vs = set([pair[1]])
        for (peer, ver) in pair[2]:
            if peer in down or ver in (None, 'None'):
                continue
            vs.add(ver)
        return len(vs) == 1

    pair_seqs = [pr[0] for pr in pairs]

    def judge(pair):
        """(possibly agrees, certainly agrees): the driver reads is_up when it processes the answer, some time between the moment
        the node served this poll and the moment it served the next one; every host-state snapshot in that interval counts."""
        later = [x for x in pair_seqs if x > pair[0]]
        end = later[0] if later else 10 ** 12
        snaps = [down_at(pair[0])] + [down_at(sq) for (sq, a, up) in timeline if pair[0] < sq <= end]
        res = [agrees_under(pair, d) for d in snaps]
        return any(res), all(res)

    def agrees(pair):
        return judge(pair)[0]

    nontrivial = False
    for rec in st['waits']:
        if 'seq_ddl' not in rec or 'seq1' not in rec:
            continue
        window = [pr for pr in pairs if rec['seq_ddl'] < pr[0] <= rec['seq1']]
        if any(not agrees(pr) for pr in window):
            sim.probe('disagreeing_poll')
            nontrivial = True
        agreed_polls = [pr for pr in window if agrees(pr)]
        if not window and plan['ddls'][rec['k']].get('blackout'):
            sim.probe('every_poll_unanswered')
            nontrivial = True
        out = rec.get('outcome')
        if rec['via'] == 'refresh':
            reported = out is not None and out[0] == 'ok'
            timed_out = False
        else:
            timed_out = out is not None and out[0] == 'err' and out[1] == 'OperationTimedOut'
            reported = rec.get('agreed_flag')
            if out is not None and out[0] == 'err' and not timed_out:
                continue
        if timed_out:
            sim.probe('client_timeout_during_wait')
            V.check('C43/recorded')
            if not agreed_polls and rec.get('agreed_flag') is not False:
                V.add('C43/recorded', 'timeout-during-wait-recorded-as-agreed',
                      'statement %d timed out client-side (%.2f s) during the schema agreement wait with no agreeing poll, but is_schema_agreed=%r (%s)'
                      % (rec['k'], rec['timeout'], rec.get('agreed_flag'), rec.get('exc_text', '')[:120]))
            continue
        elapsed = rec['t1'] - rec['t_ddl']
        if reported:
            V.check('C43/true-sound')
            if not agreed_polls:
                V.add('C43/true-sound', 'agreement-reported-without-agreeing-poll',
                      'statement %d (%s): agreement reported after %.2f s but none of the %d polls served in that window showed a single version '
                      '(down hosts %r, liveness %r); last poll %r'
                      % (rec['k'], rec['via'], elapsed, len(window), sorted(down_addrs), is_up, window[-1][1:] if window else None))
            elif elapsed > 0.5:
                sim.probe('agreement_after_wait')
        else:
            V.check('C43/false-complete')
            sim.probe('wait_exhausted')
            if elapsed < W - 0.05:
                V.add('C43/false-complete', 'gave-up-early', 'statement %d (%s): disagreement reported after %.2f s, wait budget %.2f s' % (rec['k'], rec['via'], elapsed, W))
            early = [pr for pr in agreed_polls if judge(pr)[1] and seq_time.get(pr[0], 1e9) < rec['t_ddl'] + W - 0.6]
            if early:
                V.add('C43/false-complete', 'disagreement-reported-despite-agreeing-poll',
                      'statement %d (%s): disagreement reported although a poll served at %.2f s into the wait agreed' %
                      (rec['k'], rec['via'], seq_time.get(early[0][0], 0) - rec['t_ddl']))
    for cr in sim.crashes:
        if not cr[0].startswith('main'):
            V.add('C43/true-sound', 'thread-exception', 'thread %s died: %s' % (cr[0], cr[1]))
    return {'violations': V.items, 'rules_checked': V.checked, 'nontrivial': nontrivial,
            'faults': dict(w.net.fault_counts), 'summary': {'status': status, 'waits': [(r['via'], r.get('outcome') and r['outcome'][0], r.get('agreed_flag')) for r in st['waits']]},
            'stratum': ('ignored' if plan['ignored'] is not None else 'plain') + ('+down' if plan['down'] is not None else '')}
