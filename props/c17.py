"""C17 Hosts are tried in query-plan order and exhaustion is reported (W-FULL)."""
from dsim import seams
from props.common import set_knob, gen_strategy, quiet_logging, Violations
from worlds.reqpath import ReqPathRun, base_plan, RETRY, RETHROW, IGNORE, RETRY_NEXT_HOST, DECISION_NAMES

ID = 'C17'
TIERS = {'quick': {'runs': 12000, 'budget_s': 55, 'wall_cap': 120, 'block': 60},
         'thorough': {'runs': 400000, 'budget_s': 840, 'wall_cap': 120, 'block': 60}}
SHRINK_LISTS = ['requests', 'faults']
COVERAGE_RULE = ('one run = real Cluster/Session over 2-4 fake nodes; per statement a scripted plan (permutation or subset) or '
                 'an explicit host= target; before the statements run, node crashes leave some hosts without a pool; nodes '
                 'answer ok or with errors that the scripted retry policy turns into RETRY / RETRY_NEXT_HOST / RETHROW; '
                 'optional speculative policy; paged statements re-plan per page; distinct = event-log digest; non-trivial = '
                 'a statement moved past its first host or ended in NoHostAvailable')
RULES = {
    'C17/attempted': 'ResponseFuture.attempted_hosts (the record behind "listing every attempted host" and the gate of speculative executions) names only hosts a send to which went through',
    'C17/order': 'the nodes that receive a statement form a subsequence of its plan, in plan order',
    'C17/no-repeat': 'a host receives the statement again only directly after a RETRY decision on that host',
    'C17/exhaustion': 'NoHostAvailable is delivered only after the plan iterator is exhausted (every plan host was tried or skipped), and its errors map has an entry for every host of the plan',
    'C17/moves-on': 'after a RETRY / RETRY_NEXT_HOST decision whose host became unusable the statement goes on to the next plan host or reports '
                    'a failure; it is never left without any attempt in flight until the client timeout',
    'C17/target': 'with host= only the targeted node ever receives the statement',
    'C17/first-host': 'the first host of the plan that has a usable pool is tried first (also for every later page)',
}
WORLD_INFO = {'real': ['ResponseFuture (_make_query_plan, send_request, _query, _errors, _retry_task, _on_speculative_execute)',
                       'Session.execute_async host targeting', 'Cluster host up/down handling that creates and removes pools'],
              'stub': ['libev C binding', 'sockets/TCP', 'ThreadPoolExecutor', 'fake nodes', 'scripted LBP/retry policy']}
ASSUMPTIONS = ['hosts whose node was crashed before the statements start count as legitimately skipped']
REQUIRED_PROBES = ['host_with_busy_connection', 'coordinator_died_after_retry_decision', 'moved_to_next_host', 'no_host_available', 'host_without_pool_skipped', 'explicit_target', 'later_page_replanned']

RETRIABLE = ['read_timeout', 'write_timeout', 'unavailable', 'overloaded', 'server_error']


def prepare():
    seams.install_static()
    quiet_logging()


def gen_plan(rng, tier):
    p = base_plan(rng, nodes=rng.choice([2, 3, 4]))
    n = len(p['cluster']['nodes'])
    spec = None
    if rng.random() < 0.3:
        spec = {'delay': rng.choice([0.02, 0.05]), 'max': rng.choice([1, 2, 3])}
    p['exec'] = {'spec': spec, 'executor_threads': rng.choice([1, 2]), 'default_timeout': 6.0, 'reconnect_delay': 30.0}
    p['nthreads'] = 1
    down = [i for i in range(1, n) if rng.random() < 0.3]
    for i in down:
        p['faults'].append({'at': 0.05, 'kind': 'crash', 'node': i, 'how': 'rst', 'announce': rng.choice([None, 0.05])})
    busy = [i for i in range(1, n) if i not in down and rng.random() < 0.2]
    for i in busy:
        p['faults'].append({'at': 0.05, 'kind': 'choke', 'node': i})
    p['busy'] = busy
    if rng.random() < 0.2:
        p['never_convict'] = True
    nreq = rng.choice([1, 2, 4, 6])
    for i in range(nreq):
        order = list(range(n))
        rng.shuffle(order)
        order = order[:rng.choice([n, n, max(1, n - 1), 1])]
        r = {'thread': 0, 'plan': order, 'idempotent': rng.random() < 0.7, 'start_at': 1.5, 'sync': rng.random() < 0.5,
             'think': 0.001}
        k = rng.random()
        if k < 0.15:
            r['target'] = rng.randrange(n)
            r['scripts'] = [rng.choice([{'kind': 'ok', 'delay': 0.005},
                                        {'kind': 'error', 'error': rng.choice(RETRIABLE), 'delay': 0.005}])]
            r['decisions'] = [[rng.choice([RETRY_NEXT_HOST, RETHROW]), None]]
        elif k < 0.35:
            npages = rng.choice([2, 3])
            sizes = [2] * npages
            r['paged'] = True
            r['fetch_size'] = 2
            sc = []
            for j in range(npages):
                if rng.random() < 0.4:
                    sc.append({'kind': 'error', 'error': rng.choice(RETRIABLE), 'delay': 0.004})
                sc.append({'kind': 'ok', 'pages': sizes, 'delay': 0.004})
            r['scripts'] = sc
            r['decisions'] = [[RETRY_NEXT_HOST, None]] * 4
        else:
            nerr = rng.choice([0, 1, 2, 3, 4])
            sc = [{'kind': 'error', 'error': rng.choice(RETRIABLE), 'delay': rng.choice([0.002, 0.03, 0.12])} for _ in range(nerr)]
            sc.append({'kind': 'ok', 'delay': rng.choice([0.002, 0.03, 0.3])})
            r['scripts'] = sc
            r['decisions'] = [[rng.choice([RETRY_NEXT_HOST, RETRY_NEXT_HOST, RETRY_NEXT_HOST, RETRY, RETHROW]), None]
                              for _ in range(nerr + 1)]
        p['requests'].append(r)
    if rng.random() < 0.4 and not any(r.get('paged') for r in p['requests']):
        # (later pages of paged statements are fetched at the end of the run and would meet the dead coordinator)
        # last statement: the coordinator answers with an error, the policy says RETRY (same host), and the coordinator dies right
        # after answering - by the time the retry runs its pool may be gone, shut down or its connection dead
        order = list(range(n))
        rng.shuffle(order)
        then = {'kind': rng.choice(['crash', 'crash', 'rst_pool']), 'after': rng.choice([0.0002, 0.001, 0.003, 0.01]),
                'announce': rng.choice([None, 0.0, 0.002])}
        p['requests'].append({'thread': 0, 'plan': order, 'idempotent': True, 'start_at': 1.5, 'sync': True, 'think': 0.001,
                              'scripts': [{'kind': 'error', 'error': rng.choice(RETRIABLE), 'delay': 0.003, 'then': then},
                                          {'kind': 'ok', 'delay': 0.003}, {'kind': 'ok', 'delay': 0.003}],
                              'decisions': [[RETRY, None], [RETRY_NEXT_HOST, None], [RETRY_NEXT_HOST, None], [RETRY_NEXT_HOST, None]],
                              'then_fault': True})
    if any(r.get('paged') for r in p['requests']):
        # page epochs are told apart by time; speculative attempts of one page overlapping the next page's
        # requests would blur them (that interaction is examined in C18), so paged runs have no speculation
        p['exec']['spec'] = None
    p.update(strategy=gen_strategy(rng), line_p=rng.choice([0, 0, 0.01]), points=rng.choice([0, 2]),
             time_jump_p=rng.choice([0, 0, 0.1]))
    return p


def line_funcs(w):
    RF = w.ccl.ResponseFuture
    return [RF.send_request, RF._query, RF._retry_task, RF._handle_retry_decision, RF._on_speculative_execute]


def run_plan(plan, seed, choices=None):
    run = ReqPathRun(plan, seed, choices, horizon=60.0, line_funcs=line_funcs)
    w, sim = run.w, run.w.sim
    page_obs = []
    # the order in which the driver decides to send: Connection.send_msg calls.  (The order in which bytes reach the sockets of
    # different connections is the reactor's business: it serves write watchers in any order.)
    pushes = []
    sent_ok = set()       # (rid, host address) of every send_msg call that returned normally
    import functools
    import re as _re
    _rid = _re.compile(r'/\*rid=(\d+)\*/')
    orig_send_msg = w.cconn.Connection.send_msg

    @functools.wraps(orig_send_msg)
    def send_msg_logged(self_, msg, request_id, cb, *a, **k):
        m = _rid.search(str(getattr(msg, 'query', '') or ''))
        if m:
            pushes.append((sim.nlog, int(m.group(1)), str(self_.endpoint.address)))
        r_ = orig_send_msg(self_, msg, request_id, cb, *a, **k)
        if m:
            sent_ok.add((int(m.group(1)), str(self_.endpoint.address)))
        return r_
    set_knob(w.cconn.Connection, 'send_msg', send_msg_logged)
    addr_idx = dict((nd.addr, nd.idx) for nd in w.fc.nodes)

    orig_user = run.user

    def user(tid):
        # one request into each choked connection: it sits in the driver's write queue, the socket reports EAGAIN, and from then on
        # the connection refuses sends as busy
        for b in plan.get('busy', []):
            w.sleep(max(0.0, run.st['t_connected'] + 0.3 - sim.vnow()))
            try:
                f = w.session.execute_async("SELECT * FROM ks1.t /*rid=%d*/" % (900 + b), timeout=0.2, host=run.lbp.hosts.get(w.fc.nodes[b].addr))
                f.add_callbacks(lambda r: None, lambda e: None)
                try:
                    f.result()
                except Exception:
                    pass
            except Exception:
                pass
            sim.probe('host_with_busy_connection')
        orig_user(tid)
        for i, r in enumerate(plan['requests']):
            if not r.get('paged'):
                continue
            o = run.obs.get(i)
            if o is None or o.result is None or o.result[0] != 'ok':
                continue
            rs = w.ccl.ResultSet(o.future, o.future._final_result)
            k = 1
            while rs.has_more_pages and k < 6:
                mark = sim.nlog
                try:
                    rs.fetch_next_page()
                    out = 'ok'
                except Exception as e:
                    out = type(e).__name__
                page_obs.append((i, k, mark, sim.nlog, out))
                if out != 'ok':
                    break
                k += 1
    run.user = user
    status = run.run(settle=1.0)
    V = Violations()
    crashed = set(f['node'] for f in plan['faults'] if f['kind'] in ('crash', 'choke'))     # hosts that cannot be reached: skipped legitimately
    nontrivial = False
    for i, o in sorted(run.obs.items()):
        r = plan['requests'][i]
        entries = run.node_entries(i)
        calls = [c for c in run.retry.calls if c['rid'] == i]
        # split the arrivals into epochs (first page, later pages)
        bounds = [0] + [m[2] for m in page_obs if m[0] == i] + [10 ** 12]
        for ep in range(len(bounds) - 1):
            es = [e for e in entries if bounds[ep] <= e['seq'] < bounds[ep + 1]] if ep else \
                [e for e in entries if e['seq'] < bounds[1]]
            if not es:
                continue
            es = sorted(es, key=lambda e: e['sent_seq'])      # order in which the driver sent them
            nodes = [e['node'] for e in es]
            if r.get('target') is not None:
                V.check('C17/target')
                sim.probe('explicit_target')
                if any(x != r['target'] for x in nodes):
                    V.add('C17/target', 'other-host-tried', 'request %d targeted node %d but nodes %r received it' % (i, r['target'], nodes))
                continue
            plan_nodes = list(r['plan'])
            # collapse immediate repeats that follow a RETRY decision
            retry_decisions = [c for c in calls if c['decision'][0] == RETRY]
            V.check('C17/no-repeat')
            seq = []
            for x in nodes:
                if x not in seq:
                    seq.append(x)
            repeats = len(nodes) - len(seq)
            if repeats > len(retry_decisions):
                V.add('C17/no-repeat', 'host-retried-without-decision', 'request %d (page epoch %d): nodes %r with %d RETRY decision(s)'
                      % (i, ep, nodes, len(retry_decisions)))
            V.check('C17/order')
            pos = -1
            for x in seq:
                if x not in plan_nodes:
                    V.add('C17/order', 'host-not-in-plan', 'request %d: node %d is not in plan %r' % (i, x, plan_nodes))
                    break
                px = plan_nodes.index(x)
                if px < pos:
                    # judged on the order of the send_msg calls: two executions of one request (initial + speculative) write to two
                    # connections, whose bytes the reactor may put on the wire in either order
                    lo, hi = (bounds[ep], bounds[ep + 1]) if ep else (0, bounds[1])
                    pushed = []
                    for (ps_, prid, paddr) in pushes:
                        if prid == i and lo <= ps_ < hi and addr_idx.get(paddr) in seq and addr_idx[paddr] not in pushed:
                            pushed.append(addr_idx[paddr])
                    if len(pushed) == len(seq) and [plan_nodes.index(y) for y in pushed] == sorted(plan_nodes.index(y) for y in pushed):
                        sim.probe('wire_order_differs_from_send_order')
                        break
                    V.add('C17/order', 'out-of-plan-order', 'request %d (page epoch %d): nodes %r, plan %r' % (i, ep, seq, plan_nodes))
                    break
                pos = px
            if ep == 0 and o.future is not None:
                # the record of hosts the request was sent to names only hosts whose send went through
                V.check('C17/attempted')
                ghosts = [str(h.endpoint.address) for h in (getattr(o.future, 'attempted_hosts', None) or []) if (i, str(h.endpoint.address)) not in sent_ok]
                if ghosts:
                    V.add('C17/attempted', 'attempted-hosts-lists-a-host-nothing-was-sent-to',
                          'request %d: attempted_hosts names %r but no send to it succeeded (sends that went through: %r)'
                          % (i, ghosts, sorted(a_ for (r_, a_) in sent_ok if r_ == i)))
            V.check('C17/first-host')
            usable = [x for x in plan_nodes if x not in crashed]
            if usable and seq and seq[0] != usable[0] and not plan['exec'].get('spec'):
                V.add('C17/first-host', 'first-usable-host-skipped', 'request %d (page epoch %d): first tried node %d, plan %r, crashed %r'
                      % (i, ep, seq[0], plan_nodes, sorted(crashed)))
            if ep:
                sim.probe('later_page_replanned')
            if len(seq) > 1:
                sim.probe('moved_to_next_host')
                nontrivial = True
            if any(x in crashed for x in plan_nodes):
                sim.probe('host_without_pool_skipped')
        # a retry decision must lead somewhere: another attempt, or a reported failure - never an abandoned plan
        if r.get('then_fault') and calls:
            V.check('C17/moves-on')
            sim.probe('coordinator_died_after_retry_decision')
            last = calls[-1]
            later = [e for e in entries if e['seq'] > last['seq']]
            c0 = o.calls[0] if o.calls else None
            timed_out = c0 is None or (c0[2] == 'eb' and c0[3][0] == 'OperationTimedOut')
            tried = set(e['node'] for e in entries)
            left = [x for x in r['plan'] if x not in tried and x not in crashed]
            swallowed = any(b in r['plan'] and b not in tried for b in plan.get('busy', []))     # a choked host may have taken the write
            if last['decision'][0] in (RETRY, RETRY_NEXT_HOST) and not later and timed_out and left and not swallowed:
                V.add('C17/moves-on', 'plan-abandoned-after-retry-decision',
                      'request %d: the policy decided %s after node %d answered, that node then failed, and nothing further was sent although '
                      'plan hosts %r were never tried; the request ended with %s' % (i, DECISION_NAMES[last['decision'][0]], entries[-1]['node'] if entries else -1,
                                                                                   left, 'no outcome' if c0 is None else 'OperationTimedOut'))
        # exhaustion
        outcomes = [(o.calls[0] if o.calls else None, o.excs[0] if o.excs else None)]
        c0, exc = outcomes[0]
        if c0 is not None and c0[2] == 'eb' and c0[3][0] == 'NoHostAvailable' and r.get('target') is None:
            sim.probe('no_host_available')
            nontrivial = True
            V.check('C17/exhaustion')
            errs = getattr(exc, 'errors', {}) or {}
            keys = set()
            for k_ in errs:
                ep_ = getattr(k_, 'endpoint', None)
                keys.add(str(ep_.address) if ep_ is not None else str(k_).split(':')[0])
            # a (speculative) attempt that is still in flight when exhaustion is reported has no error yet
            # (its reply may have left the node already: it is in flight until the client has had time to read it)
            replies = dict(((x['node'], x['attempt']), x['t']) for nn in w.fc.nodes for x in nn.replies if x['rid'] == i)
            inflight = set(e['node'] for e in entries if
                           (replies.get((e['node'], e['attempt'])) is None or replies[(e['node'], e['attempt'])] + 0.05 > c0[1]))
            # (a request written into a choked connection is in flight as far as the driver knows, although the node never sees it)
            missing = [x for x in r['plan'] if w.fc.nodes[x].addr not in keys and x not in inflight and x not in plan.get('busy', [])]
            if missing:
                V.add('C17/exhaustion', 'errors-map-incomplete', 'request %d: NoHostAvailable.errors lacks plan host(s) %r (has %r)'
                      % (i, missing, sorted(keys)))
    for (i, k, m0, m1, out) in page_obs:
        if out == 'NoHostAvailable':
            sim.probe('no_host_available')
    for cr in sim.crashes:
        V.add('C17/order', 'thread-exception', 'thread %s died: %s' % (cr[0], cr[1]))
    return {'violations': V.items, 'rules_checked': V.checked, 'nontrivial': nontrivial,
            'faults': dict(w.net.fault_counts), 'states': [w.abstract_state()],
            'summary': {'status': status, 'requests': len(run.obs), 'page_fetches': len(page_obs)},
            'stratum': 'spec' if plan['exec'].get('spec') else 'plain'}
