"""C15 Requests with a timeout always finish in bounded time (W-FULL, finite plans)."""
from dsim import seams
from props.common import gen_stalls, gen_strategy, quiet_logging, Violations
from worlds.reqpath import ReqPathRun, base_plan, RETRY, RETHROW, IGNORE, RETRY_NEXT_HOST

ID = 'C15'
TIERS = {'quick': {'runs': 12000, 'budget_s': 55, 'wall_cap': 120, 'block': 60},
         'thorough': {'runs': 400000, 'budget_s': 840, 'wall_cap': 120, 'block': 60}}
SHRINK_LISTS = ['requests', 'faults']
COVERAGE_RULE = ('one run = real Cluster/Session over 1-3 fake nodes with finite scripted query plans; statements with '
                 'timeouts 0.05-5 s (per call or profile default), optional speculative policy, servers silent / late / '
                 'failing with retry decisions / closing, paged results whose later pages are silent or late, node '
                 'crashes; pools are kept unsaturated; virtual clock only (no slow-CPU time jumps); distinct = event-log '
                 'digest; non-trivial = at least one outcome was produced by the client timeout')
RULES = {
    'C15/bounded': 'every execution and every page fetch started at t0 delivers its outcome by t0 + timeout + 0.06 s',
    'C15/kind': 'when no server answered the attempt(s), the outcome is OperationTimedOut',
}
WORLD_INFO = {'real': ['ResponseFuture timers (_start_timer, _on_timeout, _on_speculative_execute, start_fetching_next_page)',
                       'ResultSet.fetch_next_page', 'TimerManager/LibevLoop timer path', 'Cluster, Session, pools, Connection'],
              'stub': ['libev C binding (timer = ev_timer_again model)', 'sockets/TCP', 'ThreadPoolExecutor', 'fake nodes', 'scripted LBP/retry']}
ASSUMPTIONS = ['epsilon 0.06 s = three 0.01 s re-arms of _on_timeout + speculative re-arm + loop latency (DESIGN 5.1)',
               'pools unsaturated: the documented 2 s borrow wait per host is outside the statement']
REQUIRED_PROBES = ['timed_out_silent_server', 'later_page_silent', 'timeout_after_retry', 'spec_then_timeout']
EPS = 0.06


def prepare():
    seams.install_static()
    quiet_logging()


def gen_plan(rng, tier):
    p = base_plan(rng, nodes=rng.choice([1, 2, 3]))
    n = len(p['cluster']['nodes'])
    nreq = rng.choice([1, 2, 3, 5, 8])
    spec = None
    if rng.random() < 0.35:
        spec = {'delay': rng.choice([0.02, 0.1, 0.4]), 'max': rng.choice([1, 2, 10])}
    p['exec'] = {'spec': spec, 'executor_threads': rng.choice([1, 2]), 'default_timeout': rng.choice([0.3, 1.0, 3.0])}
    p['nthreads'] = rng.choice([1, 2])
    for i in range(nreq):
        order = list(range(n))
        rng.shuffle(order)
        r = {'thread': rng.randrange(p['nthreads']), 'plan': order, 'idempotent': rng.random() < 0.7, 'think': rng.choice([0, 0.01])}
        if rng.random() < 0.75:
            r['timeout'] = rng.choice([0.05, 0.2, 0.5, 1.0, 2.0, 5.0])
        k = rng.random()
        if k < 0.4:
            # paged: some pages ok, then a silent or very late page
            npages = rng.choice([2, 3, 4])
            sizes = [rng.choice([0, 1, 2, 3]) for _ in range(npages)]
            sc = []
            bad = rng.randrange(0, npages + 1)
            for j in range(npages):
                if j == bad:
                    sc.append(rng.choice([{'kind': 'drop'}, {'kind': 'ok', 'pages': sizes, 'delay': 8.0}]))
                else:
                    sc.append({'kind': 'ok', 'pages': sizes, 'delay': rng.choice([0.001, 0.02, 0.1])})
            r['scripts'] = sc
            r['fetch_size'] = 2
            r['paged'] = True
        else:
            sc = []
            for _ in range(rng.choice([1, 1, 2, 3])):
                kk = rng.random()
                if kk < 0.45:
                    sc.append({'kind': 'drop'})
                elif kk < 0.6:
                    sc.append({'kind': 'ok', 'delay': rng.choice([0.001, 0.1, 0.6, 3.0, 9.0])})
                elif kk < 0.9:
                    sc.append({'kind': 'error', 'error': rng.choice(['read_timeout', 'unavailable', 'overloaded', 'server_error']),
                               'delay': rng.choice([0.001, 0.04, 0.19, 0.49])})
                else:
                    sc.append({'kind': 'close', 'delay': rng.choice([0.001, 0.1])})
            r['scripts'] = sc
            r['decisions'] = [[rng.choice([RETRY, RETRY_NEXT_HOST, RETRY_NEXT_HOST, RETHROW]), None] for _ in range(3)]
        p['requests'].append(r)
    for _ in range(rng.choice([0, 0, 0, 1])):
        p['faults'].append({'at': rng.choice([0.01, 0.1, 0.4]), 'kind': 'crash', 'node': rng.randrange(n),
                            'how': rng.choice(['rst', 'blackhole'])})
    p.update(strategy=gen_strategy(rng), line_p=0, points=0, time_jump_p=0)
    p.update(gen_stalls(rng, ['_set_result', '_on_timeout', '_retry_task', '_query', 'start_fetching_next_page'], 0.3))
    return p


def line_funcs(w):
    RF = w.ccl.ResponseFuture
    return [RF._set_result, RF._on_timeout, RF._retry_task, RF._query, RF.start_fetching_next_page, RF._start_timer]


def run_plan(plan, seed, choices=None):
    run = ReqPathRun(plan, seed, choices, horizon=60.0, line_funcs=line_funcs)
    w, sim = run.w, run.w.sim
    fetches = []     # (rid, page index, t0, t1, outcome type)

    # user threads iterate paged results page by page, timing every fetch
    orig_user = run.user

    def user(tid):
        orig_user(tid)
        for i, r in enumerate(plan['requests']):
            if r.get('thread', 0) != tid or not r.get('paged'):
                continue
            o = run.obs.get(i)
            if o is None or o.result is None or o.result[0] != 'ok':
                continue
            rs = o.future  # ResponseFuture; drive pages through a fresh ResultSet like a user would
            try:
                result_set = w.ccl.ResultSet(o.future, o.future._final_result)
            except Exception:
                continue
            k = 1
            while result_set.has_more_pages and k < 8:
                t0 = sim.vnow()
                sim.rec('page.fetch', 'rid=%d page=%d' % (i, k))
                try:
                    result_set.fetch_next_page()
                    out = 'ok'
                except Exception as e:
                    out = type(e).__name__
                fetches.append((i, k, t0, sim.vnow(), out))
                sim.rec('page.done', 'rid=%d page=%d %s' % (i, k, out))
                if out != 'ok':
                    break
                k += 1
    run.user = user
    status = run.run(settle=0.5)
    V = Violations()
    timed_out = 0
    default_t = plan['exec'].get('default_timeout', 10.0)
    def stalled(a, b):
        # a driver thread that the simulator stalled (thread-stall fault) cannot act meanwhile: the timer that reports the timeout
        # runs on the event-loop thread, its completion on whichever thread; the bound is on top of the stall time injected in [a, b]
        return sum(d for (ts, d, name) in sim.stall_log if ts < b and ts + d > a)

    for i, o in sorted(run.obs.items()):
        r = plan['requests'][i]
        T = r.get('timeout', default_t)
        if getattr(o, 'sync_raise', False):
            continue
        V.check('C15/bounded')
        t_done = o.calls[0][1] if o.calls else None
        if t_done is None:
            V.add('C15/bounded', 'first-page-never-finished',
                  'request %d (timeout %.2f) started at %.3f had no outcome by %.3f (status %s)' % (i, T, o.t_start, sim.vnow(), status))
            continue
        if t_done - o.t_start > T + EPS + stalled(o.t_start, t_done):
            V.add('C15/bounded', 'first-page-late', 'request %d (timeout %.2f) finished after %.3f s' % (i, T, t_done - o.t_start))
        kind = o.calls[0][3][0] if o.calls[0][2] == 'eb' else 'ok'
        replies = [x for n in w.fc.nodes for x in n.replies if x['rid'] == i and x['seq'] < o.calls[0][0]]
        entries = run.node_entries(i)
        if kind == 'OperationTimedOut':
            timed_out += 1
            if not replies:
                sim.probe('timed_out_silent_server')
            elif run.retry.count.get(i):
                sim.probe('timeout_after_retry')
            if plan['exec'].get('spec') and len(entries) > 1:
                sim.probe('spec_then_timeout')
        V.check('C15/kind')
        # a connection fault anywhere in the run may legitimately fail other requests multiplexed on that connection
        closed = bool(plan['faults']) or bool(w.net.fault_counts.get('rst'))
        if not replies and not closed and kind not in ('OperationTimedOut',) and entries:
            V.add('C15/kind', 'wrong-outcome-without-answer', 'request %d: no server answered but outcome was %s' % (i, kind))
    for (i, k, t0, t1, out) in fetches:
        r = plan['requests'][i]
        T = r.get('timeout', default_t)
        V.check('C15/bounded')
        if t1 - t0 > T + EPS + stalled(t0, t1):
            V.add('C15/bounded', 'later-page-late', 'fetch of page %d of request %d (timeout %.2f) took %.3f s (%s)' % (k, i, T, t1 - t0, out))
        if out == 'OperationTimedOut':
            timed_out += 1
            sim.probe('later_page_silent')
    # a user thread still blocked in fetch_next_page at the horizon
    if status != 'done':
        for t in w.user_threads:
            if t.state != 'done' and t.name.startswith('user'):
                last = [e for e in sim.log if e[3] == 'page.fetch' and e[2] == t.name]
                V.add('C15/bounded', 'later-page-never-finished' if last else 'never-finished',
                      'user thread %s still blocked at the horizon (%.1f s); last page fetch: %r' % (t.name, sim.vnow(), last[-1][4] if last else None))
    for cr in sim.crashes:
        V.add('C15/bounded', 'thread-exception', 'thread %s died: %s' % (cr[0], cr[1]))
    return {'violations': V.items, 'rules_checked': V.checked, 'nontrivial': timed_out > 0,
            'faults': dict(w.net.fault_counts), 'states': [w.abstract_state()],
            'summary': {'status': status, 'requests': len(run.obs), 'page_fetches': len(fetches), 'timed_out': timed_out},
            'stratum': 'paged' if any(r.get('paged') for r in plan['requests']) else 'single'}
