"""C16 Retries do exactly what the retry policy decided (W-FULL)."""
from dsim import seams
from props.common import gen_strategy, quiet_logging, Violations
from worlds.reqpath import (ReqPathRun, base_plan, RETRY, RETHROW, IGNORE, RETRY_NEXT_HOST, ERR_METHOD, ERR_EXC,
                            DECISION_NAMES)

ID = 'C16'
TIERS = {'quick': {'runs': 12000, 'budget_s': 55, 'wall_cap': 120, 'block': 60},
         'thorough': {'runs': 400000, 'budget_s': 840, 'wall_cap': 120, 'block': 60}}
SHRINK_LISTS = ['requests']
COVERAGE_RULE = ('one run = real Cluster/Session over 2-4 fake nodes, fixed scripted query plan per statement, recording '
                 'retry policy whose decision (RETRY/RETRY_NEXT_HOST/RETHROW/IGNORE x consistency incl. ANY) is drawn per '
                 'call, per statement a server error sequence of length 0-5 (read/write timeout, unavailable, overloaded, '
                 'bootstrapping, truncate, server error, connection close), idempotent flag, executor 1-4 threads; a '
                 'separate stratum enables a speculative policy to check the non-idempotent gate; distinct = event-log '
                 'digest; non-trivial = at least one policy consultation')
RULES = {
    'C16/consulted-once': 'one policy call per retriable error, right method for the error kind, retry_num = retries already performed',
    'C16/action': 'the next thing the nodes observe matches the decision: RETRY same host, RETRY_NEXT_HOST next plan host, '
                  'RETHROW errback with the server error type and nothing further sent, IGNORE callback with an empty result',
    'C16/consistency': 'the consistency level on the retried frame (decoded by the node) equals the decided one, unchanged for None',
    'C16/no-spec-non-idempotent': 'a non-idempotent statement never reaches a second node while its first attempt is unanswered',
}
WORLD_INFO = {'real': ['ResponseFuture (_set_result error branches, _handle_retry_decision, _retry, _retry_task, send_request)',
                       'Session._create_response_future (speculative plan selection)', 'Cluster, pools, Connection, ProtocolHandler'],
              'stub': ['libev C binding', 'sockets/TCP', 'ThreadPoolExecutor', 'fake nodes (independent decode of consistency)',
                       'scripted LBP and recording retry policy (harness subclasses of the driver base classes)']}
ASSUMPTIONS = ['timeouts are long and never fire in the retry stratum, so the error sequence alone drives the execution']
REQUIRED_PROBES = ['decision_RETRY', 'decision_RETRY_NEXT_HOST', 'decision_RETHROW', 'decision_IGNORE', 'consistency_changed',
                   'connection_error_consulted', 'spec_gate_checked']

RETRIABLE = ['read_timeout', 'write_timeout', 'unavailable', 'overloaded', 'bootstrapping', 'truncate', 'server_error']
CLS = [None, None, 0, 1, 2, 4, 5, 6, 10]


def prepare():
    seams.install_static()
    quiet_logging()


def gen_plan(rng, tier):
    p = base_plan(rng, nodes=rng.choice([2, 3, 4]))
    n = len(p['cluster']['nodes'])
    spec_stratum = rng.random() < 0.25
    p['exec'] = {'spec': ({'delay': rng.choice([0.01, 0.03]), 'max': rng.choice([1, 2, 3])} if spec_stratum else None),
                 'executor_threads': rng.choice([1, 2, 4]), 'default_timeout': 8.0}
    p['nthreads'] = rng.choice([1, 2])
    nreq = rng.choice([1, 2, 4, 8])
    for i in range(nreq):
        order = list(range(n))
        rng.shuffle(order)
        order = order[:rng.choice([n, n, max(1, n - 1)])]
        nerr = rng.choice([0, 1, 1, 2, 3, 5])
        sc = []
        for _ in range(nerr):
            if rng.random() < 0.12:
                sc.append({'kind': 'close', 'delay': rng.choice([0.001, 0.01])})
            else:
                sc.append({'kind': 'error', 'error': rng.choice(RETRIABLE), 'delay': rng.choice([0.001, 0.005, 0.05])})
        sc.append({'kind': 'ok', 'delay': rng.choice([0.001, 0.05 if not spec_stratum else 0.2])})
        r = {'thread': rng.randrange(p['nthreads']), 'plan': order, 'idempotent': rng.random() < 0.5,
             'scripts': sc, 'think': rng.choice([0, 0.002]),
             'decisions': [[rng.choice([RETRY, RETRY, RETRY_NEXT_HOST, RETRY_NEXT_HOST, RETHROW, IGNORE]), rng.choice(CLS)]
                           for _ in range(nerr + 1)]}
        if rng.random() < 0.4:
            r['consistency'] = rng.choice([1, 4, 6])
        if spec_stratum:
            # slow answers so that the speculative timer matters
            for b in sc:
                b['delay'] = rng.choice([0.001, 0.05, 0.2])
        p['requests'].append(r)
    if any(b['kind'] == 'close' for r in p['requests'] for b in r['scripts']):
        # a closed connection fails every request multiplexed on it: keep such runs sequential so that each
        # request's own error sequence is the only thing that drives it
        p['nthreads'] = 1
        for r in p['requests']:
            r['thread'] = 0
            r['sync'] = True
    p.update(strategy=gen_strategy(rng), line_p=rng.choice([0, 0.01, 0.05]), points=rng.choice([0, 2, 4]),
             time_jump_p=rng.choice([0, 0.05, 0.3]))
    if rng.random() < 0.25:
        # hosts are never convicted: after a connection loss the pool stays installed without a usable connection for a while
        p['never_convict'] = True
    if rng.random() < 0.35:
        # tiny stream-id space: a retry draws every id, 0 included, within a few requests (not only after 300 of them)
        p['knobs'] = {'max_in_flight': rng.choice([2, 3, 4, 6]), 'orphaned_threshold': 100000}
    return p


def line_funcs(w):
    RF = w.ccl.ResponseFuture
    return [RF._set_result, RF._handle_retry_decision, RF._retry, RF._retry_task, RF.send_request, RF._query]


def run_plan(plan, seed, choices=None):
    run = ReqPathRun(plan, seed, choices, horizon=60.0, line_funcs=line_funcs)
    w, sim = run.w, run.w.sim
    status = run.run(settle=1.0)
    V = Violations()
    spec = bool(plan['exec'].get('spec'))
    addr_idx = dict((n.addr, n.idx) for n in w.fc.nodes)
    rst_nodes = set()
    for n in w.fc.nodes:
        for nc in n.conns:
            if nc.conn.reset:
                rst_nodes.add(n.idx)
    consulted = 0
    for i, o in sorted(run.obs.items()):
        r = plan['requests'][i]
        entries = run.node_entries(i)
        calls = [c for c in run.retry.calls if c['rid'] == i]
        consulted += len(calls)
        if spec:
            # only the idempotence gate is judged in this stratum (speculative attempts interleave with retries)
            if not r.get('idempotent'):
                V.check('C16/no-spec-non-idempotent')
                sim.probe('spec_gate_checked')
                # every send beyond the first must have been caused by a retry decision of the policy
                allowed = 1 + sum(1 for c in calls if c['decision'][0] in (RETRY, RETRY_NEXT_HOST))
                if len(entries) > allowed:
                    V.add('C16/no-spec-non-idempotent', 'speculative-non-idempotent',
                          'non-idempotent request %d was received %d times by nodes %r with only %d retry decision(s)'
                          % (i, len(entries), [e['node'] for e in entries], allowed - 1))
            continue
        if o.result is None:
            continue
        plan_nodes = list(r['plan'])
        ci = 0
        retries = 0
        cl_now = r.get('consistency', 10)
        plan_pos = None
        ok = True
        for k, e in enumerate(entries):
            if plan_pos is None:
                plan_pos = plan_nodes.index(e['node']) if e['node'] in plan_nodes else None
            beh = e.get('behaviour')
            V.check('C16/consistency')
            if e.get('consistency') != cl_now:
                V.add('C16/consistency', 'wrong-consistency', 'request %d attempt %d carried consistency %r, expected %r'
                      % (i, k, e.get('consistency'), cl_now))
                ok = False
                break
            scripted = r['scripts'][k] if k < len(r['scripts']) else {'kind': 'ok'}
            if scripted['kind'] == 'ok':
                break
            method = 'on_request_error' if scripted['kind'] == 'close' else ERR_METHOD.get(scripted.get('error'))
            if method is None:
                break
            V.check('C16/consulted-once')
            if ci >= len(calls):
                V.add('C16/consulted-once', 'policy-not-consulted', 'request %d: error %r on attempt %d but the policy was not consulted'
                      % (i, scripted, k))
                ok = False
                break
            c = calls[ci]
            ci += 1
            if scripted['kind'] == 'close':
                sim.probe('connection_error_consulted')
            if c['method'] != method:
                V.add('C16/consulted-once', 'wrong-method', 'request %d: %r consulted via %s, expected %s' % (i, scripted.get('error'), c['method'], method))
            if c['retry_num'] != retries:
                V.add('C16/consulted-once', 'wrong-retry-num', 'request %d: retry_num %d passed, %d retries performed so far'
                      % (i, c['retry_num'], retries))
            dec, cl = c['decision']
            sim.probe('decision_' + DECISION_NAMES[dec])
            nxt = entries[k + 1] if k + 1 < len(entries) else None
            V.check('C16/action')
            if dec in (RETRY, RETRY_NEXT_HOST):
                retries += 1
                if cl is not None:
                    if cl != cl_now:
                        sim.probe('consistency_changed')
                    cl_now = cl
                if dec == RETRY:
                    if nxt is None:
                        if o.calls and o.calls[0][3][0] != 'NoHostAvailable':
                            V.add('C16/action', 'retry-not-sent', 'request %d: RETRY decided but nothing further reached a node; outcome %r' % (i, o.result[:2]))
                        break
                    if nxt['node'] != e['node'] and e['node'] not in rst_nodes:
                        V.add('C16/action', 'retry-on-other-host', 'request %d: RETRY decided on node %d but the retry went to node %d'
                              % (i, e['node'], nxt['node']))
                else:
                    pos = plan_nodes.index(e['node']) if e['node'] in plan_nodes else -1
                    rest = plan_nodes[pos + 1:]
                    # hosts already consumed by the plan iterator (earlier attempts) are gone
                    used = [x['node'] for x in entries[:k + 1]]
                    cand = [x for x in plan_nodes if x not in used]
                    if nxt is None:
                        if cand and not all(x in rst_nodes for x in cand) and (not o.calls or o.calls[0][3][0] == 'NoHostAvailable'):
                            V.add('C16/action', 'next-host-skipped', 'request %d: RETRY_NEXT_HOST with hosts %r left but none was tried' % (i, cand))
                        break
                    if nxt['node'] == e['node']:
                        V.add('C16/action', 'next-host-same-host', 'request %d: RETRY_NEXT_HOST resent to the same node %d' % (i, e['node']))
                    elif cand and nxt['node'] != cand[0] and cand[0] not in rst_nodes:
                        V.add('C16/action', 'next-host-out-of-order', 'request %d: RETRY_NEXT_HOST went to node %d, plan says %d' % (i, nxt['node'], cand[0]))
            elif dec == RETHROW:
                if nxt is not None:
                    V.add('C16/action', 'sent-after-rethrow', 'request %d: RETHROW decided but node %d received it again' % (i, nxt['node']))
                want = ERR_EXC.get(scripted.get('error')) if scripted['kind'] == 'error' else 'ConnectionShutdown'
                got = o.calls[0][3][0] if o.calls and o.calls[0][2] == 'eb' else o.result[:2]
                if got != want:
                    V.add('C16/action', 'rethrow-wrong-outcome', 'request %d: RETHROW of %s produced %r' % (i, want, got))
                break
            else:
                if nxt is not None:
                    V.add('C16/action', 'sent-after-ignore', 'request %d: IGNORE decided but node %d received it again' % (i, nxt['node']))
                if not (o.calls and o.calls[0][2] == 'cb' and o.calls[0][3] == []):
                    V.add('C16/action', 'ignore-wrong-outcome', 'request %d: IGNORE produced %r' % (i, o.calls[:1]))
                break
        if ok and ci < len(calls) and not V.items:
            V.add('C16/consulted-once', 'extra-consultation', 'request %d: policy consulted %d times for %d retriable errors'
                  % (i, len(calls), ci))
    for cr in sim.crashes:
        V.add('C16/action', 'thread-exception', 'thread %s died: %s' % (cr[0], cr[1]))
    return {'violations': V.items, 'rules_checked': V.checked, 'nontrivial': consulted > 0,
            'faults': dict(w.net.fault_counts), 'states': [w.abstract_state()],
            'summary': {'status': status, 'requests': len(run.obs), 'consultations': consulted},
            'stratum': 'spec' if spec else 'retry'}
