"""C44 Heartbeats detect dead idle connections without leaking capacity (W-FULL)."""
from dsim import seams
from dsim.core import HarnessError
from props.common import gen_strategy, quiet_logging, Violations
from worlds.full import control_labels, FullWorld, default_cluster_spec, ReqObs

ID = 'C44'
TIERS = {'quick': {'runs': 7500, 'budget_s': 55, 'wall_cap': 120, 'block': 40},
         'thorough': {'runs': 250000, 'budget_s': 840, 'wall_cap': 120, 'block': 40}}
SHRINK_LISTS = ['windows', 'hb_script']
COVERAGE_RULE = ('one run = real Cluster/Session (ConnectionHeartbeat thread, HeartbeatFuture, pools, control connection) over '
                 '1-3 fake nodes, heartbeat interval 0.5-3 s, timeout <= interval, pooled max_in_flight 3-8, 8-40 rounds; per '
                 'node a script answers each heartbeat ok / with an error / not at all; user traffic makes some connections '
                 'busy during some intervals; distinct = event-log digest; non-trivial = at least 5 heartbeats were exchanged '
                 'and a busy interval or a failing/silent heartbeat occurred')
RULES = {
    'C44/beat': 'an idle healthy connection receives one heartbeat per interval (gap between heartbeats in [I-0.1, I+timeout+0.2])',
    'C44/skip-busy': 'a connection that received a response during the interval is not sent a heartbeat in that round',
    'C44/detect': 'a connection whose heartbeat is not answered (or is answered with an error) is closed within timeout+0.3 s of the heartbeat',
    'C44/no-leak': 'successful heartbeats leave capacity as it was: a healthy connection is never closed for lack of stream ids and in_flight returns to 0',
}
WORLD_INFO = {'real': ['ConnectionHeartbeat, HeartbeatFuture, Connection idle tracking', 'HostConnection.return_connection (shutdown_on_error), '
                       'ControlConnection.return_connection', 'Cluster/Session wiring of connection holders'],
              'stub': ['libev C binding', 'sockets/TCP', 'ThreadPoolExecutor', 'fake nodes (OPTIONS on a ready connection = heartbeat)']}
ASSUMPTIONS = ['idle means: no message received since the previous round (DESIGN 5.1 item 11)']
REQUIRED_PROBES = ['server_closed_idle_connection', 'heartbeat_on_unwritable_connection', 'heartbeat_ok', 'heartbeat_dropped', 'heartbeat_error', 'busy_round_skipped', 'many_rounds_small_capacity']


def prepare():
    seams.install_static()
    quiet_logging()


def gen_plan(rng, tier):
    n = rng.choice([1, 2, 3])
    interval = rng.choice([0.5, 1.0, 2.0, 3.0])
    timeout = rng.choice([interval, interval / 2.0, 0.3])
    rounds = rng.choice([8, 12, 20, 40])
    spec = default_cluster_spec(n, versions=(3, 4, 5))
    hb = []
    for i in range(n):
        seqs = []
        mode = rng.choice(['ok', 'ok', 'drop_once', 'error_once'])
        k = rng.randrange(1, rounds)
        for j in range(rounds * 3):
            if mode == 'drop_once' and j == k:
                seqs.append('drop')
            elif mode == 'error_once' and j == k:
                seqs.append('error')
            else:
                seqs.append('ok')
        hb.append({'node': i, 'mode': mode, 'seq': seqs})
    windows = []
    for _ in range(rng.choice([0, 1, 2, 3])):
        t0 = rng.uniform(0.2, rounds * interval * 0.8)
        windows.append({'node': rng.randrange(n), 't0': round(t0, 3), 'len': round(rng.choice([0.5, 1.5, 3.0]) * interval, 3),
                        'every': rng.choice([0.1, 0.2])})
    return {'cluster': spec, 'version': rng.choice([3, 4, 5]), 'interval': interval, 'timeout': timeout, 'rounds': rounds,
            'knobs': {'max_in_flight': rng.choice([3, 4, 8]), 'orphaned_threshold': 1000},
            'hb_script': hb, 'windows': windows, 'strategy': gen_strategy(rng), 'time_jump_p': 0,
            'srvclose': ({'node': rng.randrange(n), 'at': round(rng.uniform(0.3, rounds * interval * 0.5), 3)} if rng.random() < 0.25 else None),
            'eagain': ({'node': rng.randrange(n), 'at': round(rng.uniform(0.3, rounds * interval * 0.5), 3)} if rng.random() < 0.25 else None)}


def run_plan(plan, seed, choices=None):
    I, T = plan['interval'], plan['timeout']
    horizon = plan['rounds'] * I + 10
    w = FullWorld(plan, seed, choices, horizon=horizon + 30, step_cap=3000000)
    sim, fc = w.sim, w.fc
    for h in plan['hb_script']:
        if h['node'] < len(fc.nodes):
            fc.nodes[h['node']].options_behaviour = list(h['seq'])
    st = {}
    obs = {}

    def main():
        try:
            cluster = w.make_cluster(protocol_version=plan['version'], idle_heartbeat_interval=I, idle_heartbeat_timeout=T,
                                     reconnection_policy=w.cpol.ConstantReconnectionPolicy(1000.0, max_attempts=None))
            session = cluster.connect(wait_for_all_pools=True)
        except Exception as e:
            st['connect_error'] = repr(e)
            return
        w.session = session
        st['t_connected'] = sim.vnow()
        hosts = dict((str(h.endpoint.address), h) for h in cluster.metadata.all_hosts())
        for wi, win in enumerate(plan['windows']):
            w.spawn(traffic, 'traffic%d' % wi, wi, win, hosts)
        if plan.get('eagain'):
            w.spawn(backpressure, 'backpressure', plan['eagain'], hosts)
        if plan.get('srvclose'):
            sc = plan['srvclose']

            def srv_close():
                # the node closes its side of the idle pooled connection in an orderly way (FIN, no error)
                for nc in fc.nodes[sc['node']].conns:
                    if not nc.events and nc.label not in control_labels() and not nc.closed and not nc.conn.reset:
                        nc.conn.server_close()
                        st.setdefault('srvclosed', []).append((nc.label, sim.vnow(), sc['node'], sim.nlog))
                sim.rec('fault', 'server closes idle pool connection n%d' % sc['node'])
                w.net.count('server_fin')
            sim.at(sc['at'], srv_close, 'server fin')
        w.sleep(plan['rounds'] * I)
        st['t_end'] = sim.vnow()

    def backpressure(bp, hosts):
        # the kernel send buffer of that node's pooled connection fills up and stays full (peer stopped reading)
        w.sleep(bp['at'])
        node = fc.nodes[bp['node']]
        for nc in node.conns:
            if not nc.events and nc.label not in control_labels() and not nc.closed:
                nc.conn.sock.room_left = 20
                nc.conn.sock.force_eagain = True
                st.setdefault('eagain_socks', []).append((nc.conn.sock, sim.vnow()))
        sim.rec('fault', 'send buffer full n%d' % node.idx)
        w.net.count('send_buffer_full')
        o = obs[9000] = ReqObs(w, 9000)
        try:
            o.start(w.session, "SELECT * FROM ks1.t /*rid=9000*/", timeout=0.4, host=hosts.get(node.addr))
            o.wait()
        except Exception as e:
            o.result = ('err', type(e).__name__, '')

    def traffic(wi, win, hosts):
        w.sleep(win['t0'])
        end = sim.vnow() + win['len']
        k = 0
        while sim.vnow() < end:
            rid = 1000 * (wi + 1) + k
            o = obs[rid] = ReqObs(w, rid)
            try:
                o.start(w.session, "SELECT * FROM ks1.t /*rid=%d*/" % rid, timeout=1.0, host=hosts.get(fc.nodes[win['node']].addr))
                o.wait()
            except Exception as e:
                o.result = ('err', type(e).__name__, '')
            k += 1
            w.sleep(win['every'])

    leaks = []
    w.spawn(main, 'main')
    status = w.run_until_users_done()
    if st.get('connect_error'):
        raise HarnessError('connect failed: %s' % st['connect_error'])
    w.settle(T + 1.0)
    # wait until the heartbeat thread is parked between two rounds (no round half-way through), all traffic being over
    hb = getattr(w.cluster, '_idle_heartbeat', None) if w.cluster is not None else None
    if hb is not None and hb.state != 'done':
        sim.run(until=lambda: getattr(hb, 'waitset', None) is hb._shutdown_event.waiters or hb.state == 'done')
        for c in seams.ALL_CONNS:
            if not c.is_closed and not c.is_defunct and c.in_flight != 0 and not c._requests and c.connected_event.is_set():
                leaks.append((sim.nlog, c._sim_serial, c.in_flight, sorted(c.orphaned_request_ids)))
    V = Violations()
    socks = dict((s.label, s) for s in w.net.all_socks if s.label)
    beats = 0
    flags = {'busy': False, 'bad': False}
    ctrl_labels = control_labels()
    for n in fc.nodes:
        script_mode = [h['mode'] for h in plan['hb_script'] if h['node'] == n.idx]
        for nc in n.conns:
            hbs = [e for e in n.log if e['op'] == 'OPTIONS' and e.get('ready') and e['conn'] == nc.label]
            replies = [r for r in n.replies if r['conn'] == nc.label]
            s = socks.get(nc.label)
            beats += len(hbs)
            # ---- cadence on connections that never carried user traffic
            for a, b in zip(hbs, hbs[1:]):
                V.check('C44/beat')
                gap = b['t'] - a['t']
                busy_between = any(a['t'] < r['t'] < b['t'] for r in replies)
                if busy_between:
                    continue
                if a.get('behaviour') != 'ok':
                    continue
                if gap < I - 0.1:
                    V.add('C44/beat', 'heartbeat-too-early', 'node %d %s: heartbeats %.3f s apart, interval %.2f' % (n.idx, nc.label, gap, I))
                elif gap > I + T + 0.2:
                    V.add('C44/beat', 'heartbeat-too-late', 'node %d %s: idle healthy connection went %.3f s without a heartbeat (interval %.2f, timeout %.2f)'
                          % (n.idx, nc.label, gap, I, T))
            # an idle healthy connection that lived for several intervals must have been beaten at all
            # (a control connection that never got as far as REGISTER was never installed: nobody owes it heartbeats)
            if s is not None and not replies and not (nc.label in ctrl_labels and not nc.events):
                alive_until = s.closed_t if s.closed_t is not None else st.get('t_end', sim.vnow())
                born = next((e['t'] for e in n.log if e['conn'] == nc.label), None)
                if born is not None and alive_until - born > 2 * I + T + 0.5 and not hbs and not nc.conn.reset:
                    V.add('C44/beat', 'never-beaten', 'node %d %s was idle and open for %.1f s without any heartbeat (interval %.2f)'
                          % (n.idx, nc.label, alive_until - born, I))
            # ---- skip-busy
            for hbe in hbs:
                V.check('C44/skip-busy')
                recent = [r for r in replies if hbe['t'] - I + 0.15 < r['t'] < hbe['t'] - 0.15]
                if recent:
                    # was the previous round held up by a silent/failing heartbeat on some other connection?
                    slow_round = any(e2.get('behaviour') in ('drop', 'error') and hbe['t'] - I - T - 0.3 < e2['t'] < hbe['t']
                                     for n2 in fc.nodes for e2 in n2.log if e2['op'] == 'OPTIONS' and e2.get('ready')) or \
                        any(t0 < hbe['t'] for (_sk, t0) in st.get('eagain_socks', []))
                    V.add('C44/skip-busy', 'heartbeat-on-busy-connection' + (':after-round-delayed-by-silent-peer' if slow_round else ''),
                          'node %d %s: heartbeat at %.3f although a response was delivered at %.3f (interval %.2f)' % (n.idx, nc.label, hbe['t'], recent[-1]['t'], I))
            if replies and len(hbs) < max(0, int(((socks[nc.label].closed_t or st.get('t_end', 0)) - (st.get('t_connected', 0))) / I) - 1):
                sim.probe('busy_round_skipped')
                flags['busy'] = True
            # ---- detect
            for hbe in hbs:
                beh = hbe.get('behaviour')
                if beh == 'ok':
                    sim.probe('heartbeat_ok')
                    continue
                flags['bad'] = True
                sim.probe('heartbeat_dropped' if beh == 'drop' else 'heartbeat_error')
                V.check('C44/detect')
                limit = hbe['t'] + T + 0.3      # futures of one round are awaited one after the other, up to the round timeout
                if s is None or s.closed_t is None or s.closed_t > limit:
                    if hbe['t'] + T + 0.5 < sim.vnow():
                        V.add('C44/detect', 'dead-connection-not-closed:' + beh,
                              'node %d %s: heartbeat at %.3f was %s but the socket was %s (limit %.3f)'
                              % (n.idx, nc.label, hbe['t'], 'not answered' if beh == 'drop' else 'answered with an error',
                                 'closed at %.3f' % s.closed_t if s is not None and s.closed_t is not None else 'never closed', limit))
            # ---- no-leak: all-ok connection must not be closed by the driver
            V.check('C44/no-leak')
            allok = hbs and all(e.get('behaviour') == 'ok' for e in hbs)
            node_bad = any(e.get('behaviour') in ('drop', 'error') for e in n.log if e['op'] == 'OPTIONS' and e.get('ready'))
            host_down = any(ev[2] == 'down' and ev[3] == n.addr for ev in w.recorder.events)
            if allok and not node_bad and not host_down and s is not None and s.closed_t is not None and \
                    s.closed_t < st.get('t_end', 0) and not nc.conn.reset:
                # closed before the run ended although every heartbeat was answered; allowed only if its host went down
                V.add('C44/no-leak', 'healthy-connection-closed', 'node %d %s: every heartbeat was answered ok, yet the driver closed the socket at %.3f (by %s)'
                      % (n.idx, nc.label, s.closed_t, s.closed_by))
    for (sk, t0) in st.get('eagain_socks', []):
        V.check('C44/detect')
        sim.probe('heartbeat_on_unwritable_connection')
        limit = t0 + 2 * I + T + 0.5
        if st.get('t_end', 0) > limit + 0.1 and (sk.closed_t is None or sk.closed_t > limit):
            V.add('C44/detect', 'unwritable-idle-connection-not-closed',
                  'socket fd=%d could not be written since %.3f (send buffer full) and stayed idle, but was %s (limit %.3f, interval %.2f)'
                  % (sk.fd, t0, 'closed at %.3f' % sk.closed_t if sk.closed_t is not None else 'never closed', limit, I))
    for (label, t0, nidx, seq0) in st.get('srvclosed', []):
        V.check('C44/detect')
        sim.probe('server_closed_idle_connection')
        limit = t0 + 2 * I + T + 0.5
        if st.get('t_end', 0) > limit + 0.1:
            node = fc.nodes[nidx]
            down = [ev for ev in w.recorder.events if ev[2] == 'down' and ev[3] == node.addr and ev[0] > seq0]
            newer = [nc for nc in node.conns if not nc.events and nc.label not in control_labels() and nc.label != label and nc.accepted_seq > seq0]
            reacted_t = min([ev[1] for ev in down] + [nc.accepted_t for nc in newer] + [1e18])
            # a host that the driver had already marked down when the server closed the connection (a pool for it can exist for a while:
            # a pool creation queued before the failure completes after it) is the reconnector's business, not the heartbeat's
            before = [ev for ev in w.recorder.events if ev[3] == node.addr and ev[2] in ('up', 'down', 'add') and ev[0] <= seq0]
            if before and before[-1][2] == 'down':
                sim.probe('server_closed_connection_of_a_host_already_down')
                continue
            if reacted_t > limit:
                V.add('C44/detect', 'closed-idle-connection-owner-not-notified',
                      'node %d closed idle pooled connection %s at %.3f; by %.3f (two heartbeat rounds later) its pool had neither replaced it nor '
                      'reported the host down (%s)' % (nidx, label, t0, limit, 'reacted at %.3f' % reacted_t if reacted_t < 1e17 else 'never reacted'))
    for (seq, serial, f, orph) in leaks[:1]:
        V.add('C44/no-leak', 'in-flight-leak', 'between two heartbeat rounds at the end of the run (seq %d) connection #%d still had in_flight=%d with no request outstanding (orphaned %r)'
              % (seq, serial, f, orph))
    if plan['knobs']['max_in_flight'] <= 4 and plan['rounds'] >= 12:
        sim.probe('many_rounds_small_capacity')
    for cr in sim.crashes:
        V.add('C44/beat', 'thread-exception', 'thread %s died: %s' % (cr[0], cr[1]))
    return {'violations': V.items, 'rules_checked': V.checked, 'nontrivial': beats >= 5 and (flags['busy'] or flags['bad']),
            'faults': dict(w.net.fault_counts), 'states': [w.abstract_state()],
            'summary': {'status': status, 'heartbeats': beats}, 'stratum': 'I=%.1f' % I}
