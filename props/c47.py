"""C47 A connection is usable only after a successful handshake (W-CONN, reply-by-reply scripted peer)."""
from collections import OrderedDict

from dsim import seams
from dsim.core import HarnessError
from fakecass import codec as C
from props.common import gen_strategy, quiet_logging, Violations, set_knob
from worlds.conn import ConnWorld, Peer, standin_compress, standin_decompress

ID = 'C47'
TIERS = {'quick': {'runs': 8000, 'budget_s': 50, 'wall_cap': 60, 'block': 80},
         'thorough': {'runs': 1000000, 'budget_s': 840, 'wall_cap': 60, 'block': 80}}
SHRINK_LISTS = ['script']
COVERAGE_RULE = ('one run = Connection.factory() of the real LibevConnection against a peer that answers the i-th request with the i-th '
                 'entry of a generated reply script (SUPPORTED with drawn cql versions/compressions, READY, AUTHENTICATE, AUTH_CHALLENGE, '
                 'AUTH_SUCCESS, ERROR bad-credentials/protocol/server/unsupported-version, unexpected RESULT, unsolicited EVENT, EOF, RST, '
                 'silence) - 60% of the scripts follow a legal handshake up to a drawn point; authenticator in {none, PlainText, '
                 'v1 credentials dict, multi-round stub that may answer None}; compression in {False, True, "lz4", "snappy"} with lz4 / '
                 'snappy stand-ins registered locally or not; protocol 1-5; replies chunked arbitrarily and delayed; after a successful '
                 'handshake one QUERY is exchanged; distinct = event-log digest; non-trivial = the script got past SUPPORTED')
RULES = {
    'C47/ready-iff': 'factory() returns a connection only if the peer had by then sent READY in reply to STARTUP/CREDENTIALS or AUTH_SUCCESS '
                     'in reply to AUTH_RESPONSE; and a script that is a legal successful handshake yields a connection',
    'C47/auth-error': 'bad credentials and "authentication required but not configured" raise AuthenticationFailed; every other failure '
                      'raises a connection-level error that is not AuthenticationFailed; nothing else escapes',
    'C47/compression': 'the algorithm named in STARTUP is advertised by the peer and supported locally (the requested one if a name was '
                       'given; none for snappy under v5); no frame up to and including STARTUP is compressed; frames are compressed only '
                       'after the peer accepted STARTUP and only if an algorithm was named',
    'C47/checksum': 'the client switches to checksummed segments exactly for protocol 5 and only after the reply to STARTUP: the peer '
                    'decodes every client byte under that rule and the client decodes the peer\'s',
}
WORLD_INFO = {'real': ['Connection.factory/_send_options_message/_handle_options_response/_send_startup_message/_handle_startup_response/'
                       '_handle_auth_response/_enable_compression/_enable_checksumming', 'LibevConnection', 'ProtocolHandler encode/decode, '
                       'segment codec', 'PlainTextAuthenticator'],
              'stub': ['libev C binding', 'socket/TCP', 'peer (independent codec)', 'lz4/snappy = zlib stand-ins with the same wrapper convention']}
ASSUMPTIONS = ['ERROR codes other than bad-credentials are not scripted inside the authentication exchange (their class is the driver\'s choice)',
               'a frame with an empty body is never compressed (nothing to compress)']
REQUIRED_PROBES = ['handshake_ready', 'auth_success', 'auth_rejected', 'auth_required_not_configured', 'challenge_answered_none',
                   'compression_negotiated', 'v5_segments', 'unsolicited_event_in_handshake', 'disconnect_in_handshake', 'snappy_v5',
                   'ready_reply_delayed']


def prepare():
    seams.install_static()
    quiet_logging()


AUTH_CLASS = 'org.apache.cassandra.auth.PasswordAuthenticator'


def gen_plan(rng, tier):
    version = rng.choice([1, 2, 3, 4, 4, 5, 5])
    auth = rng.choice(['none', 'none', 'plain', 'plain', 'multi', 'multi'] + (['creds'] if version == 1 else []))
    if version == 1 and auth in ('plain', 'multi'):
        auth = 'creds'
    compression = rng.choice([False, True, True, 'lz4', 'snappy'])
    local = rng.choice([[], ['lz4'], ['snappy'], ['lz4', 'snappy'], ['lz4', 'snappy']])
    advertised = rng.choice([[], ['lz4'], ['snappy'], ['lz4', 'snappy'], ['snappy', 'lz4'], ['deflate']])
    cql_versions = rng.choice([['3.4.5'], ['3.4.5', '3.0.0'], ['3.0.0']])
    want_cql = rng.choice([None, None, None, '3.4.5', '9.9.9'])
    rounds = rng.choice([0, 1, 2, 3])
    none_rounds = sorted(rng.sample(range(4), rng.choice([0, 0, 1, 2])))
    script = []
    legal = rng.random() < 0.6
    if legal:
        script.append({'kind': 'supported'})
        server_auth = rng.random() < (0.7 if auth != 'none' else 0.25)
        if not server_auth:
            script.append({'kind': 'ready'})
        else:
            script.append({'kind': 'authenticate'})
            if auth == 'creds':
                script.append({'kind': rng.choice(['ready', 'ready', 'bad_credentials'])})
            else:
                for _ in range(rounds):
                    script.append({'kind': 'challenge'})
                script.append({'kind': rng.choice(['success', 'success', 'success', 'bad_credentials'])})
        # cut or corrupt at a drawn point
        r = rng.random()
        if r < 0.35:
            i = rng.randrange(len(script))
            script[i] = {'kind': rng.choice(['eof', 'rst', 'silence', 'server_error', 'protocol_error', 'result', 'unsupported', 'ready',
                                             'success', 'authenticate', 'challenge', 'supported'])}
        if rng.random() < 0.25:
            i = rng.randrange(len(script) + 1)
            script.insert(i, {'kind': 'event'})
    else:
        for _ in range(rng.randrange(1, 7)):
            script.append({'kind': rng.choice(['supported', 'supported', 'ready', 'authenticate', 'challenge', 'success', 'bad_credentials',
                                               'server_error', 'protocol_error', 'unsupported', 'result', 'event', 'eof', 'rst', 'silence'])})
    for e in script:
        e['delay'] = rng.choice([None, None, 0.05, 0.4])
        if e['kind'] in ('bad_credentials', 'server_error', 'protocol_error', 'unsupported') and rng.random() < 0.35:
            e['then'] = rng.choice(['eof', 'eof', 'garbage'])
    return {'version': version, 'auth': auth, 'compression': compression, 'local': local, 'advertised': advertised,
            'cql_versions': cql_versions, 'want_cql': want_cql, 'none_rounds': none_rounds, 'script': script,
            'chunk_mode': rng.choice(['whole', 'mixed', 'bytes1']), 'lat': [0.0005, rng.choice([0.002, 0.02])],
            'server_compresses': rng.random() < 0.7, 'timeout': rng.choice([5.0, 8.0]),
            'strategy': gen_strategy(rng), 'time_jump_p': 0}


# ------------------------------------------------------------------------------------------------ reference handshake machine
def reference(plan):
    """What a correct client does with this script: ('ready'|'auth'|'conn', startup compression or None, index of the deciding reply)."""
    v = plan['version']
    comp = plan['compression']
    local = list(plan['local'])
    script = [e['kind'] for e in plan['script']]
    state = 'options'
    named = None
    i = 0
    nreq = 0
    for i, k in enumerate(script + ['silence']):
        if k == 'event':
            continue
        nreq += 1
        if k in ('eof', 'rst', 'silence'):
            return 'conn', named, i
        if k == 'unsupported':
            return 'conn', named, i
        if state == 'options':
            if k != 'supported':
                return 'conn', named, i
            if plan['want_cql'] and plan['want_cql'] not in plan['cql_versions']:
                return 'conn', named, i
            if comp:
                overlap = [c for c in local if c in plan['advertised']]
                if overlap:
                    if isinstance(comp, str):
                        if comp not in plan['advertised']:
                            return 'conn', named, i
                        named = comp if comp in local else 'UNSUPPORTED-LOCALLY'
                    else:
                        named = [c for c in ('lz4', 'snappy') if c in overlap][0]
                    if named == 'snappy' and v >= 5:
                        named = None
            state = 'startup'
        elif state == 'startup':
            if k == 'ready':
                return 'ready', named, i
            if k == 'authenticate':
                if plan['auth'] == 'none':
                    return 'auth', named, i
                state = 'creds' if plan['auth'] == 'creds' else 'sasl'
            else:
                return 'conn', named, i
        elif state == 'creds':
            if k == 'ready':
                return 'ready', named, i
            if k == 'bad_credentials':
                return 'auth', named, i
            if k in ('server_error', 'protocol_error'):
                return 'fail', named, i            # an ERROR other than bad credentials inside the exchange: either class
            if k == 'authenticate':
                # v1: the peer answers CREDENTIALS by asking for credentials again. The property does not say whether a client
                # answers again or gives up; whatever it does, 'ready-before-server-said-so' still requires a READY to CREDENTIALS.
                return 'any', named, i
            return 'conn', named, i
        elif state == 'sasl':
            if k == 'success':
                return 'ready', named, i
            if k == 'challenge':
                continue
            if k == 'bad_credentials':
                return 'auth', named, i
            if k in ('server_error', 'protocol_error'):
                return 'fail', named, i
            return 'conn', named, i
    return 'conn', named, i


class ScriptPeer(Peer):
    def __init__(self, world, plan):
        Peer.__init__(self, world, versions=(1, 2, 3, 4, 5), compressions=plan['advertised'])
        self.plan = plan
        self.pos = 0
        self.accepted_at = None      # log seq when the reply to STARTUP (READY/AUTHENTICATE) was sent
        self.ready_sent = None       # log seq when READY (to STARTUP/CREDENTIALS) or AUTH_SUCCESS (to AUTH_RESPONSE) was sent
        self.client_frames = []      # (seq, opcode, flags, was_segmented, after_accept)
        self.last_req = None
        self.query_seen = 0

    def on_request(self, pc, fr, req):
        plan, sim = self.plan, self.sim
        v, s, op = fr['version'], fr['stream'], fr['opcode']
        self.client_frames.append((sim.nlog, op, fr['flags'], pc.segs_in is not None, self.accepted_at is not None, req))
        if self.ready_sent is not None and op == C.QUERY:
            self.query_seen += 1
            pc.send_frame(v, s, C.RESULT, C.void_body(), compress_body=False)
            return
        self.last_req = op
        while True:
            if self.pos >= len(plan['script']):
                return                                        # silence
            e = plan['script'][self.pos]
            self.pos += 1
            if e['kind'] == 'event':
                pc.send_frame(v, -1, C.EVENT, C.event_body('STATUS_CHANGE', 'UP', '10.0.0.9', 9042, version=v))
                sim.probe('unsolicited_event_in_handshake')
                continue
            break
        k = e['kind']
        lat = e.get('delay')
        cb = bool(plan['server_compresses'] and pc.compression and self.accepted_at is not None and v < 5)

        def send(opcode, body, version=v, compress=None):
            pc.send_frame(version, s, opcode, body, compress_body=(cb if compress is None else compress) and bool(body), latency=lat)
        if k == 'supported':
            send(C.SUPPORTED, C.supported_body(cql_versions=plan['cql_versions'], compressions=plan['advertised']), compress=False)
        elif k in ('ready', 'authenticate'):
            if op == C.STARTUP:
                comp = (req or {}).get('options', {}).get('COMPRESSION')
                pc.compression = comp if comp in ('lz4', 'snappy') else None
            body = b'' if k == 'ready' else C.w_string(AUTH_CLASS)
            send(C.READY if k == 'ready' else C.AUTHENTICATE, body, compress=False)
            if op == C.STARTUP:
                self.accepted_at = sim.nlog
                if v >= 5:
                    pc.enable_segments()
                    sim.probe('v5_segments')
            if k == 'ready' and op in (C.STARTUP, C.CREDENTIALS):
                self.ready_sent = sim.nlog
                if lat:
                    sim.probe('ready_reply_delayed')
        elif k == 'challenge':
            # PlainTextAuthenticator only understands the DSE-style PLAIN-START challenge
            send(C.AUTH_CHALLENGE, C.w_bytes(b'PLAIN-START' if plan['auth'] == 'plain' else b'challenge-%d' % self.pos))
        elif k == 'success':
            send(C.AUTH_SUCCESS, C.w_bytes(None if self.pos % 2 else b'final'))
            if op == C.AUTH_RESPONSE:
                self.ready_sent = sim.nlog
                if lat:
                    sim.probe('ready_reply_delayed')
        elif k == 'bad_credentials':
            send(C.ERROR, C.error_body(C.E_BAD_CREDENTIALS, 'Provided username cassandra and/or password are incorrect'))
        elif k == 'server_error':
            send(C.ERROR, C.error_body(C.E_SERVER, 'java.lang.RuntimeException'))
        elif k == 'protocol_error':
            send(C.ERROR, C.error_body(C.E_PROTOCOL, 'Unexpected message STARTUP'))
        elif k == 'unsupported':
            send(C.ERROR, C.error_body(C.E_PROTOCOL, 'Invalid or unsupported protocol version (%d); supported versions are (3/v3, 4/v4)' % v),
                 version=min(v, 4) if v > 1 else 1)
        elif k == 'result':
            send(C.RESULT, C.void_body())
        elif k == 'eof':
            pc.conn.server_close(latency=lat)
            sim.probe('disconnect_in_handshake')
        elif k == 'rst':
            pc.conn.rst('rst')
            sim.probe('disconnect_in_handshake')
        elif k == 'silence':
            pass
        if e.get('then') and k in ('bad_credentials', 'server_error', 'protocol_error', 'unsupported'):
            # what servers do after refusing a handshake: close the connection (FIN after the error frame), or - a sloppy peer -
            # some stray bytes right behind it; the failure the client reports is the one the server stated first
            if e['then'] == 'eof':
                pc.conn.server_close(latency=lat)
            else:
                pc.conn.server_send(b'\x00\x00\x00', latency=lat)
            sim.probe('second_failure_after_refusal')


def run_plan(plan, seed, choices=None):
    w = ConnWorld(plan, seed, choices, horizon=120.0, step_cap=1500000,
                  net={'lat': tuple(plan['lat']), 'chunk_mode': plan['chunk_mode']})
    sim, M = w.sim, w.M
    cconn = M['cconn']
    import cassandra
    import cassandra.auth as cauth
    proto = __import__('cassandra.protocol', fromlist=['x'])
    # locally supported codecs: zlib stand-ins with the lz4 wrapper convention under both names
    d = OrderedDict()
    for name in ('lz4', 'snappy'):
        if name in plan['local']:
            d[name] = (standin_compress, standin_decompress)
    set_knob(cconn, 'locally_supported_compressions', d)
    set_knob(cconn, 'segment_codec_lz4', cconn.SegmentCodec(standin_compress, standin_decompress))
    peer = ScriptPeer(w, plan)
    w.listen(peer)
    V = Violations()
    st = {}
    v = plan['version']

    class MultiRound(cauth.Authenticator):
        def __init__(self):
            self.rounds = 0
            self.success = None

        def initial_response(self):
            return b'\x00user\x00pass'

        def evaluate_challenge(self, challenge):
            r = self.rounds
            self.rounds += 1
            if r in plan['none_rounds']:
                sim.probe('challenge_answered_none')
                return None
            return b'round-%d' % r

        def on_authentication_success(self, token):
            self.success = (token,)

    if plan['auth'] == 'plain':
        authenticator = cauth.PlainTextAuthProvider('cassandra', 'cassandra').new_authenticator('10.0.0.1')
    elif plan['auth'] == 'multi':
        authenticator = MultiRound()
    elif plan['auth'] == 'creds':
        authenticator = {'username': 'cassandra', 'password': 'cassandra'}
    else:
        authenticator = None

    def main():
        kw = dict(protocol_version=v, compression=plan['compression'], authenticator=authenticator)
        if plan['want_cql']:
            kw['cql_version'] = plan['want_cql']
        try:
            conn = w.factory(plan['timeout'], **kw)
        except BaseException as e:
            st['exc'] = e
            st['exc_seq'] = sim.nlog
            return
        st['conn'] = conn
        st['ret_seq'] = sim.nlog
        st['ready_sent_at_return'] = peer.ready_sent
        st['checksumming'] = bool(getattr(conn, '_is_checksumming_enabled', False))
        st['compressor'] = conn.compressor is not None
        try:
            st['query_result'] = type(conn.wait_for_response(proto.QueryMessage('SELECT now() FROM system.local /* padding padding */', 1),
                                                             timeout=2.0)).__name__
        except BaseException as e:
            st['query_exc'] = repr(e)
        conn.close()

    t = w.spawn(main, 'main')
    status = sim.run(until=lambda: t.state == 'done')
    if status != 'done':
        raise HarnessError('run did not finish: %s' % status)
    exp, named, decided = reference(plan)
    got_past_supported = peer.pos > 1 or (peer.pos == 1 and plan['script'] and plan['script'][0]['kind'] == 'supported')
    # ---- ready-iff
    V.check('C47/ready-iff')
    if 'conn' in st:
        if st['ready_sent_at_return'] is None:
            V.add('C47/ready-iff', 'ready-before-server-said-so',
                  'factory() returned a connection at seq %d but the peer had sent neither READY (to STARTUP/CREDENTIALS) nor AUTH_SUCCESS '
                  '(to AUTH_RESPONSE) by then (script %r, auth %s, replies used %d)'
                  % (st['ret_seq'], [e['kind'] for e in plan['script']], plan['auth'], peer.pos))
        elif exp == 'any':
            sim.probe('v1_authenticate_repeated')
        elif exp != 'ready':
            V.add('C47/ready-iff', 'ready-on-illegal-handshake', 'factory() returned a connection; the reference handshake ends in %r at reply %d '
                  '(script %r, auth %s)' % (exp, decided, [e['kind'] for e in plan['script']], plan['auth']))
        else:
            sim.probe('handshake_ready')
            if any(e['kind'] == 'success' for e in plan['script'][:decided + 1]):
                sim.probe('auth_success')
    else:
        e = st.get('exc')
        is_auth = isinstance(e, cassandra.AuthenticationFailed)
        # connection-level = any ordinary exception that is not an authentication failure (ConnectionException and subclasses,
        # OperationTimedOut, OSError, or the server's own ErrorMessage such as ProtocolException which defunct() stores as last_error)
        is_conn = isinstance(e, Exception) and not is_auth
        if named == 'UNSUPPORTED-LOCALLY':
            pass        # compression='x' named by the user but not installed locally: the driver's behaviour is unspecified here
        elif exp == 'ready' and isinstance(e, cassandra.OperationTimedOut) and sum(x.get('delay') or 0 for x in plan['script']) + 1.5 > plan['timeout']:
            pass        # the scripted delays alone use up the connect timeout
        elif exp == 'ready':
            V.add('C47/ready-iff', 'legal-handshake-failed', 'the script is a legal successful handshake but factory() raised %r (script %r, auth %s, '
                  'compression %r local %r advertised %r v%d)' % (e, [x['kind'] for x in plan['script']], plan['auth'], plan['compression'],
                                                                   plan['local'], plan['advertised'], v))
        else:
            V.check('C47/auth-error')
            if exp == 'auth':
                sim.probe('auth_rejected' if plan['auth'] != 'none' else 'auth_required_not_configured')
                if not is_auth:
                    V.add('C47/auth-error', 'auth-failure-not-reported-as-such', 'expected AuthenticationFailed, factory() raised %r (script %r, auth %s)'
                          % (e, [x['kind'] for x in plan['script']], plan['auth']))
            elif exp in ('fail', 'any'):
                if not isinstance(e, Exception):
                    V.add('C47/auth-error', 'wrong-error-class:%s' % type(e).__name__, 'factory() raised %r' % (e,))
            elif not is_conn:
                V.add('C47/auth-error', 'wrong-error-class:%s' % type(e).__name__, 'expected a connection-level error, factory() raised %r (script %r, '
                      'auth %s)' % (e, [x['kind'] for x in plan['script']], plan['auth']))
    # ---- compression
    startup = [f for f in peer.client_frames if f[1] == C.STARTUP]
    if startup and named != 'UNSUPPORTED-LOCALLY':
        V.check('C47/compression')
        sent_name = (startup[0][5] or {}).get('options', {}).get('COMPRESSION')
        if sent_name != named:
            V.add('C47/compression', 'wrong-algorithm-in-startup', 'STARTUP named %r, expected %r (compression=%r, local %r, advertised %r, v%d)'
                  % (sent_name, named, plan['compression'], plan['local'], plan['advertised'], v))
        if sent_name:
            sim.probe('compression_negotiated')
        if plan['compression'] and 'snappy' in plan['local'] and 'snappy' in plan['advertised'] and v >= 5:
            sim.probe('snappy_v5')
        for (seq, op, flags, segmented, after_accept, req) in peer.client_frames:
            if flags & C.FLAG_COMPRESSED and (not after_accept or not sent_name):
                V.add('C47/compression', 'compressed-frame-%s' % ('before-startup-accepted' if not after_accept else 'without-negotiation'),
                      '%s frame at seq %d has the compression flag (STARTUP named %r, accepted at %r)'
                      % (C.OPNAMES[op], seq, sent_name, peer.accepted_at))
                break
        if 'conn' in st:
            if st['compressor'] != bool(sent_name):
                V.add('C47/compression', 'compressor-%s' % ('armed-without-negotiation' if st['compressor'] else 'not-armed'),
                      'connection.compressor is %s although STARTUP named %r' % ('set' if st['compressor'] else 'None', sent_name))
            q = [f for f in peer.client_frames if f[1] == C.QUERY]
            if sent_name and v < 5 and q and not (q[0][2] & C.FLAG_COMPRESSED):
                V.add('C47/compression', 'negotiated-but-not-applied', 'QUERY after the handshake is not compressed although %r was negotiated' % sent_name)
    # ---- checksumming / framing
    V.check('C47/checksum')
    # framing-level failures and undecodable handshake messages count; the body layout of the post-handshake QUERY is another property's subject
    errs = [e for e in peer.decode_errors if e[1] in ('framing', 'decompress') or 'op=%d' % C.QUERY not in e[2]]
    if errs:
        peer.decode_errors[:] = errs
        V.add('C47/checksum', 'peer-could-not-decode:%s' % peer.decode_errors[0][1],
              'the peer failed to decode client bytes: %r (v%d, STARTUP accepted at %r, compression %r)'
              % (peer.decode_errors[0], v, peer.accepted_at, named))
    if 'conn' in st:
        if st['checksumming'] != (v >= 5):
            V.add('C47/checksum', 'checksumming-%s' % ('on-for-v%d' % v if st['checksumming'] else 'off-for-v5'),
                  'connection._is_checksumming_enabled is %r for protocol %d' % (st['checksumming'], v))
        if exp == 'ready' and st.get('ready_sent_at_return') is not None and st.get('query_result') != 'ResultMessage':
            V.add('C47/checksum', 'query-after-handshake-failed', 'the QUERY after a successful handshake did not complete: %r / %r (v%d, compression %r)'
                  % (st.get('query_result'), st.get('query_exc'), v, named))
    for cr in sim.crashes:
        V.add('C47/auth-error', 'thread-exception', 'thread %s died: %s' % (cr[0], cr[1]))
    return {'violations': V.items, 'rules_checked': V.checked, 'nontrivial': bool(got_past_supported),
            'faults': dict(w.net.fault_counts),
            'summary': {'status': status, 'expected': exp, 'outcome': 'conn' if 'conn' in st else repr(st.get('exc'))[:80], 'replies': peer.pos},
            'stratum': 'v%d' % v}
