"""C19 Unknown prepared statements are transparently re-prepared (W-FULL, protocols 4 and 5)."""
from dsim import seams
from dsim.core import HarnessError, Deadlock
from props.common import gen_stalls, gen_strategy, quiet_logging, Violations
from worlds.reqpath import ReqPathRun, base_plan, RETRY, RETRY_NEXT_HOST, RETHROW
from worlds.full import ReqObs

ID = 'C19'
TIERS = {'quick': {'runs': 12000, 'budget_s': 55, 'wall_cap': 120, 'block': 60},
         'thorough': {'runs': 400000, 'budget_s': 840, 'wall_cap': 120, 'block': 60}}
SHRINK_LISTS = ['requests']
COVERAGE_RULE = ('one run = real Session.prepare + bound statement executions over 2-3 fake nodes (protocol 4 or 5); the node '
                 'chosen by the scripted plan has lost the statement (cache eviction) or answers a scripted UNPREPARED; the '
                 're-prepare is answered ok / with an error / with a different id / by closing the connection; optionally the '
                 'session keyspace was changed after preparing (protocol 4), or a speculative policy races attempts; '
                 'distinct = event-log digest; non-trivial = at least one UNPREPARED answer was produced')
RULES = {
    'C19/reprepare': 'after UNPREPARED the same node receives PREPARE with the same query text (same keyspace on v5), then the '
                     'EXECUTE again, and the request succeeds',
    'C19/mismatch': 'on re-prepare id mismatch or session keyspace mismatch the request fails with that error and nothing '
                    'further for it reaches any node',
    'C19/conn-loss': 'when the connection is lost during the re-prepare the request moves to the next host of the plan',
}
WORLD_INFO = {'real': ['ResponseFuture (PreparedQueryNotFound branch, _reprepare, _execute_after_prepare)', 'Session.prepare, '
                       'PreparedStatement/BoundStatement, ExecuteMessage/PrepareMessage encoding', 'Cluster, pools, Connection'],
              'stub': ['libev C binding', 'sockets/TCP', 'ThreadPoolExecutor', 'fake nodes with a per-node prepared cache (independent codec)']}
ASSUMPTIONS = ['prepared ids are md5(keyspace|query) at the fake node; for protocol 4 the keyspace is the connection keyspace']
REQUIRED_PROBES = ['prepared_in_other_keyspace', 'unprepared_answer', 'reprepare_ok', 'reprepare_different_id', 'reprepare_error', 'reprepare_conn_loss',
                   'keyspace_changed_after_prepare', 'statement_id_dropped_from_registry',
                   'reprepare_returns_id_of_another_live_statement']

QUERY = "SELECT * FROM t WHERE k=? /*stmt*/"
OTHER_QUERY = "SELECT * FROM t WHERE k=? /*other*/"


def prepare():
    seams.install_static()
    quiet_logging()


def gen_plan(rng, tier):
    p = base_plan(rng, nodes=rng.choice([2, 3]), version=rng.choice([4, 4, 5]))
    n = len(p['cluster']['nodes'])
    p['cluster']['keyspaces'] = {'ks1': {'class': 'org.apache.cassandra.locator.SimpleStrategy', 'replication_factor': '1'},
                                 'ks2': {'class': 'org.apache.cassandra.locator.SimpleStrategy', 'replication_factor': '1'}}
    spec = None
    if rng.random() < 0.3:
        spec = {'delay': rng.choice([0.002, 0.005, 0.01]), 'max': 1}
    p['exec'] = {'spec': spec, 'executor_threads': rng.choice([1, 2]), 'default_timeout': 5.0}
    p['ks_switch'] = (p['version'] == 4 and rng.random() < 0.25)
    # protocol 5 carries a keyspace per request: prepare in a keyspace other than the session's
    p['prepare_ks'] = 'ks2' if (p['version'] >= 5 and rng.random() < 0.5) else None
    p['dup_prepare'] = rng.random() < 0.25
    nreq = rng.choice([1, 2, 3])
    for i in range(nreq):
        order = list(range(n))
        rng.shuffle(order)
        p['requests'].append({'thread': 0, 'plan': order, 'idempotent': True, 'sync': True,
                              'lost': rng.choice(['evict', 'evict', 'scripted', 'none']),
                              'reprepare': rng.choice(['ok', 'ok', 'ok', 'error', 'different_id', 'other_id', 'close']),
                              'exec_delay': rng.choice([0.002, 0.03]), 'timeout': rng.choice([5.0, 5.0, None]),
                              'decisions': [[RETRY_NEXT_HOST, None]] * 3})
    if p['ks_switch']:
        for r in p['requests']:
            r['reprepare'] = 'ok'       # the keyspace change alone decides the outcome
    p.update(strategy=gen_strategy(rng), line_p=rng.choice([0, 0, 0.01]), points=rng.choice([0, 2]), time_jump_p=0)
    p.update(gen_stalls(rng, ['_set_result', '_reprepare', '_execute_after_prepare', '_query'], 0.2))
    return p


def line_funcs(w):
    RF = w.ccl.ResponseFuture
    return [RF._set_result, RF._reprepare, RF._execute_after_prepare, RF._query]


def run_plan(plan, seed, choices=None):
    run = ReqPathRun(plan, seed, choices, horizon=60.0, line_funcs=line_funcs)
    w, sim = run.w, run.w.sim
    fc = w.fc
    st = {}

    def user(tid):
        session = w.session
        try:
            session.set_keyspace('ks1')
            ps = session.prepare(QUERY, keyspace=plan.get('prepare_ks')) if plan.get('prepare_ks') else session.prepare(QUERY)
            if plan.get('prepare_ks'):
                sim.probe('prepared_in_other_keyspace')
        except Exception as e:
            st['prepare_error'] = repr(e)
            return
        if plan.get('dup_prepare'):
            # the application prepares the same text a second time elsewhere and lets that statement object go: the cluster-wide
            # registry (weak values, keyed by statement id) then no longer knows the id, the first object is still in use
            try:
                ps2 = session.prepare(QUERY, keyspace=plan.get('prepare_ks')) if plan.get('prepare_ks') else session.prepare(QUERY)
                del ps2
                sim.probe('statement_id_dropped_from_registry')
            except Exception as e:
                st['prepare_error'] = repr(e)
                return
        if any(r['reprepare'] == 'other_id' for r in plan['requests']):
            # another statement of the application, alive for the whole run: its id is what an 'other_id' re-prepare returns
            try:
                st['ps_other'] = session.prepare(OTHER_QUERY, keyspace=plan.get('prepare_ks')) if plan.get('prepare_ks') else session.prepare(OTHER_QUERY)
                fc.other_query = OTHER_QUERY
            except Exception as e:
                st['prepare_error'] = repr(e)
                return
        st['ps'] = ps
        ps.is_idempotent = True     # bound statements inherit it; needed for speculative executions
        if plan['ks_switch']:
            session.set_keyspace('ks2')
            sim.probe('keyspace_changed_after_prepare')
        for i, r in enumerate(plan['requests']):
            first = fc.nodes[r['plan'][0]]
            if r['lost'] == 'evict':
                first.prepared.clear()
                sim.rec('fault', 'evict prepared cache n%d' % first.idx)
                w.net.count('cache_evict')
            elif r['lost'] == 'scripted':
                fc.unprepared_once.add((first.idx, i))
            if r['lost'] != 'none':
                fc.prepare_behaviours[:] = [r['reprepare']]
            else:
                fc.prepare_behaviours[:] = []
            fc.scripts[i] = [{'kind': 'ok', 'delay': r['exec_delay']} for _ in range(4)]
            o = run.obs[i] = ReqObs(w, i)
            o.mark = sim.nlog
            try:
                o.start(session, ps.bind((i,)), timeout=r.get('timeout', 5.0))
                if r.get('timeout', 5.0) is None:
                    sim.probe('request_without_timeout')
                o.wait()
            except Exception as e:
                o.result = ('err', type(e).__name__, str(e)[:160])
            w.sleep(0.3)
            o.mark_end = sim.nlog
    run.user = user
    try:
        status = run.run(settle=1.0)
    except Deadlock:
        status = 'deadlock'          # a request without a client timeout that never completes blocks its caller for good: judged below
    if st.get('prepare_error'):
        raise HarnessError('prepare failed: %s' % st['prepare_error'])
    V = Violations()
    spec = bool(plan['exec'].get('spec'))
    nontrivial = False
    alllog = fc.all_logs()
    # a request's re-PREPARE travels on a pooled connection (ResponseFuture._reprepare -> _query); the PREPAREs the Cluster itself sends when
    # a host comes (back) up (_prepare_all_queries) use a connection of their own and belong to no request
    pool_conns = set(e['conn'] for e in alllog if e['op'] in ('EXECUTE', 'QUERY') and not e.get('sys') and not e.get('use'))
    for i, o in sorted(run.obs.items()):
        r = plan['requests'][i]
        mine = [e for e in alllog if o.mark <= e['seq'] and (e.get('rid') == i or (e['op'] == 'PREPARE' and e['conn'] in pool_conns and
                                                                                      e['seq'] < getattr(o, 'mark_end', 10 ** 12)))]
        mine.sort(key=lambda e: e['sent_seq'])
        unprep = [e for e in mine if e.get('unprepared')]
        if not unprep:
            continue
        nontrivial = True
        sim.probe('unprepared_answer')
        if spec:
            # attempts interleave: only judge that every PREPARE goes to a node that reported UNPREPARED for this request
            V.check('C19/reprepare')
            for e in mine:
                if e['op'] == 'PREPARE':
                    # (PREPARE frames carry no request id: a speculative attempt of an earlier request may still be re-preparing)
                    said = set(x['node'] for x in alllog if x.get('unprepared') and x['seq'] < e['seq'])
                    if e['node'] not in said:
                        V.add('C19/reprepare', 'reprepare-on-other-node', 'request %d (speculative run): PREPARE sent to node %d, UNPREPARED came from %r'
                              % (i, e['node'], sorted(said)))
            continue
        u = unprep[0]
        after = [e for e in mine if e['sent_seq'] > u['sent_seq']]
        out_kind = o.result[0] if o.result else None
        out_type = o.result[1] if o.result and o.result[0] == 'err' else None
        if plan['ks_switch']:
            # protocol 4: either the driver notices the keyspace mismatch up front (ValueError, nothing sent), or the
            # re-prepare on the other keyspace yields a different id (DriverException after exactly one PREPARE)
            V.check('C19/mismatch')
            if out_type == 'ValueError':
                if after:
                    V.add('C19/mismatch', 'sent-after-keyspace-mismatch', 'request %d: after the keyspace mismatch nodes still received %r'
                          % (i, [(e['node'], e['op']) for e in after]))
            elif out_type == 'DriverException':
                if [(e['node'], e['op']) for e in after] != [(u['node'], 'PREPARE')]:
                    V.add('C19/mismatch', 'sent-after-id-mismatch', 'request %d: keyspace changed after prepare; after UNPREPARED nodes received %r'
                          % (i, [(e['node'], e['op']) for e in after]))
            else:
                V.add('C19/mismatch', 'keyspace-mismatch-not-reported', 'request %d: session keyspace changed after prepare, outcome %r' % (i, o.result))
            continue
        preps = [e for e in after if e['op'] == 'PREPARE']
        execs = [e for e in after if e['op'] == 'EXECUTE']
        V.check('C19/reprepare')
        if not preps:
            V.add('C19/reprepare', 'no-reprepare', 'request %d: UNPREPARED from node %d but no PREPARE followed (outcome %r)' % (i, u['node'], o.result))
            continue
        pr = preps[0]
        if pr['node'] != u['node']:
            V.add('C19/reprepare', 'reprepare-on-other-node', 'request %d: UNPREPARED from node %d, PREPARE sent to node %d' % (i, u['node'], pr['node']))
        if pr.get('query') != QUERY:
            V.add('C19/reprepare', 'reprepare-other-text', 'request %d: re-prepared %r' % (i, pr.get('query')))
        if plan['version'] >= 5 and st['ps'].keyspace is not None and pr.get('req_keyspace') != st['ps'].keyspace:
            V.add('C19/reprepare', 'reprepare-other-keyspace', 'request %d: PREPARE keyspace %r, statement keyspace %r' % (i, pr.get('req_keyspace'), st['ps'].keyspace))
        beh = pr.get('behaviour')
        after_p = [e for e in after if e['sent_seq'] > pr['sent_seq']]
        if beh == 'ok':
            sim.probe('reprepare_ok')
            nxt = [e for e in after_p if e['op'] == 'EXECUTE']
            if not nxt or nxt[0]['node'] != u['node']:
                V.add('C19/reprepare', 'no-resend-after-reprepare', 'request %d: after the successful re-prepare on node %d the next EXECUTE went to %r'
                      % (i, u['node'], nxt[0]['node'] if nxt else None))
            if out_kind != 'ok' or not o.result[1] or o.result[1][0][0] != i:
                V.add('C19/reprepare', 'request-failed-after-reprepare', 'request %d: outcome %r after a successful re-prepare' % (i, o.result))
        elif beh in ('different_id', 'other_id'):
            sim.probe('reprepare_different_id' if beh == 'different_id' else 'reprepare_returns_id_of_another_live_statement')
            V.check('C19/mismatch')
            if out_type != 'DriverException':
                V.add('C19/mismatch', 'id-mismatch-not-reported', 'request %d: re-prepare returned a different id, outcome %r' % (i, o.result))
            if after_p:
                V.add('C19/mismatch', 'sent-after-id-mismatch', 'request %d: after the id mismatch nodes still received %r'
                      % (i, [(e['node'], e['op']) for e in after_p]))
        elif beh == 'error':
            sim.probe('reprepare_error')
            V.check('C19/mismatch')
            if out_kind != 'err':
                V.add('C19/mismatch', 'reprepare-error-not-reported', 'request %d: re-prepare failed with a server error but outcome is %r' % (i, o.result))
            if after_p:
                V.add('C19/mismatch', 'sent-after-reprepare-error', 'request %d: after the failed re-prepare nodes still received %r'
                      % (i, [(e['node'], e['op']) for e in after_p]))
        elif beh == 'close':
            sim.probe('reprepare_conn_loss')
            V.check('C19/conn-loss')
            rest = [x for x in r['plan'] if x != u['node']]
            nxt = [e for e in after_p if e['op'] in ('EXECUTE', 'PREPARE') and e['node'] != u['node']]
            # NoHostAvailable means the driver did walk the rest of the plan and found no usable pool there
            if rest and not nxt and out_kind != 'ok' and out_type != 'NoHostAvailable':
                V.add('C19/conn-loss', 'not-moved-to-next-host', 'request %d: connection lost during re-prepare on node %d; plan %r; '
                      'nothing was sent to another host; outcome %r' % (i, u['node'], r['plan'], o.result))
    for cr in sim.crashes:
        V.add('C19/reprepare', 'thread-exception', 'thread %s died: %s' % (cr[0], cr[1]))
    return {'violations': V.items, 'rules_checked': V.checked, 'nontrivial': nontrivial,
            'faults': dict(w.net.fault_counts), 'summary': {'status': status, 'requests': len(run.obs)},
            'stratum': ('v%d' % plan['version']) + ('+ks' if plan['ks_switch'] else '') + ('+spec' if spec else '')}
