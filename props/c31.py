"""C31 Client-side timestamps strictly increase across all threads (world W-TS).

Real code: cassandra.timestamps.MonotonicTimestampGenerator.  Simulated: the module's `time`
(a scripted clock that stands still, creeps, jumps forward and backward), its Lock (sim lock),
caller threads under the baton scheduler with pre-emption at every source line of the generator.
"""
from dsim import seams
from dsim.core import Sim, SimThread
from props.common import gen_strategy, quiet_logging, Violations, set_knob

ID = 'C31'
TIERS = {'quick': {'runs': 40000, 'budget_s': 40, 'wall_cap': 30},
         'thorough': {'runs': 3000000, 'budget_s': 840, 'wall_cap': 30}}
SHRINK_LISTS = ['threads', 'clock']
COVERAGE_RULE = ('one run = (caller threads x calls, clock script of per-reading deltas, scheduler strategy, '
                 'line pre-emption rate) drawn from the seed; distinct = distinct event-log digest; non-trivial = '
                 'at least 2 caller threads, at least one line-level pre-emption inside the generator and at '
                 'least one clock reading that did not advance (stood still or went backwards)')
RULES = {
    'C31/distinct': 'all returned timestamps are pairwise distinct',
    'C31/real-time': 'if call A returned before call B was invoked, B > A (implies per-thread strictly increasing)',
    'C31/not-behind': 'each value >= int(reading*1e6) of the clock reading taken inside that call',
}
WORLD_INFO = {'real': ['cassandra.timestamps.MonotonicTimestampGenerator (__call__, _next_timestamp, _maybe_warn)'],
              'stub': ['time.time (scripted clock)', 'threading.Lock (SimLock)', 'caller threads (harness)']}
ASSUMPTIONS = ['pre-emption granularity is one source line (GIL semantics); a race needing a switch inside one line is out of reach',
               'logging is disabled during runs (logging locks are real)']
REQUIRED_PROBES = ['clock_stood_still', 'clock_went_back', 'preempted_in_generator']

DELTAS = [0, 0, 0, 1, 1, 2, 1000, 1000000, -1, -1, -2, -1000, -1000000, -10000000]


def prepare():
    seams.install_static()
    quiet_logging()


def gen_plan(rng, tier):
    nthreads = rng.choice([1, 2, 2, 3, 3, 4])
    threads = [rng.randrange(1, 21 if tier == 'thorough' else 9) for _ in range(nthreads)]
    total = sum(threads)
    mode = rng.choice(['mixed', 'still', 'back', 'creep'])
    if mode == 'still':
        pool = [0, 0, 0, 0, 1]
    elif mode == 'back':
        pool = [-1, -1000, -1000000, 0, 1]
    elif mode == 'creep':
        pool = [0, 1, 1, 2]
    else:
        pool = DELTAS
    clock = [rng.choice(pool) for _ in range(total)]
    return {
        'threads': threads,
        'clock': clock,
        'start_us': rng.choice([1, 1700000000000000, 1700000000123456]),
        'line_p': rng.choice([0.0, 0.05, 0.3, 0.3, 1.0]),
        'points': rng.choice([0, 1, 2, 4]),
        'strategy': gen_strategy(rng),
        'warn': rng.choice([True, False]),
    }


def plan_ok(plan):
    return len(plan['threads']) >= 1 and len(plan['clock']) >= 1


class ScriptedClock(object):
    def __init__(self, sim, start_us, deltas, readings):
        self.sim = sim
        self.us = start_us
        self.deltas = deltas
        self.i = 0
        self.readings = readings

    def time(self):
        d = self.deltas[self.i] if self.i < len(self.deltas) else 1
        self.i += 1
        self.us = max(self.us + d, 0)
        if d == 0:
            self.sim.probe('clock_stood_still')
        elif d < 0:
            self.sim.probe('clock_went_back')
        val = self.us / 1e6
        t = self.sim.running
        self.readings.setdefault(t.name if t is not None else 'ctrl', []).append(val)
        return val


def run_plan(plan, seed, choices=None):
    cts = seams.M['cts']
    sim = Sim(seed, strategy=plan['strategy'], step_cap=200000, choices=choices, log_picks=True)
    readings = {}
    clock = ScriptedClock(sim, plan['start_us'], plan['clock'], readings)
    set_knob(cts, "time", clock)
    gen = cts.MonotonicTimestampGenerator(warn_on_drift=plan['warn'])
    G = cts.MonotonicTimestampGenerator
    sim.enable_line_preemption([G.__call__, G._next_timestamp, G._maybe_warn], p=plan['line_p'],
                               points=plan['points'], est_lines=12 * sum(plan['threads']))
    calls = []
    seqc = [0]

    def caller(k, n):
        name = sim.running.name
        for _ in range(n):
            seqc[0] += 1
            inv = seqc[0]
            nread = len(readings.get(name, []))
            val = gen()
            seqc[0] += 1
            rs = readings.get(name, [])
            reading = rs[nread] if len(rs) > nread else None
            calls.append({'thread': k, 'inv': inv, 'ret': seqc[0], 'value': val, 'reading': reading})
            sim.rec('ts', '%d %d' % (k, val))
            sim.yield_('between-calls')

    for k, n in enumerate(plan['threads']):
        SimThread(target=caller, args=(k, n), name='caller%d' % k).start()
    status = sim.run()
    V = Violations()
    vals = {}
    for c in calls:
        V.check('C31/distinct')
        if c['value'] in vals:
            o = vals[c['value']]
            V.add('C31/distinct', 'duplicate', 'threads %d and %d both got %d' % (o['thread'], c['thread'], c['value']))
        vals[c['value']] = c
        V.check('C31/not-behind')
        if c['reading'] is not None and c['value'] < int(c['reading'] * 1e6):
            V.add('C31/not-behind', 'behind-clock', 'value %d < clock reading %d taken in the same call'
                  % (c['value'], int(c['reading'] * 1e6)))
    bys = sorted(calls, key=lambda c: c['inv'])
    for b in bys:
        for a in calls:
            if a['ret'] < b['inv']:
                V.check('C31/real-time')
                if not b['value'] > a['value']:
                    V.add('C31/real-time', 'not-increasing',
                          'call returning %d (seq %d) preceded call returning %d (invoked seq %d)'
                          % (a['value'], a['ret'], b['value'], b['inv']))
    if sim.crashes:
        V.add('C31/distinct', 'exception', 'generator raised: %s' % sim.crashes[0][1])
    if sim.preemptions:
        sim.probe('preempted_in_generator', sim.preemptions)
    nontrivial = (len(plan['threads']) >= 2 and sim.preemptions > 0 and
                  (sim.probes.get('clock_stood_still') or sim.probes.get('clock_went_back')))
    return {'violations': V.items, 'rules_checked': V.checked, 'nontrivial': bool(nontrivial),
            'summary': {'calls': len(calls), 'status': status},
            'faults': {'clock_stood_still': sim.probes.get('clock_stood_still', 0),
                       'clock_went_back': sim.probes.get('clock_went_back', 0)},
            'stratum': 'threads=%d' % len(plan['threads'])}
