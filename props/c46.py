"""C46 Per-statement options override profile and session defaults (W-FULL; effects observed on the wire, the clock and tagged policies)."""
from dsim import seams
from dsim.core import HarnessError
from props.common import gen_strategy, quiet_logging, Violations
from worlds.full import FullWorld, default_cluster_spec
from worlds.reqpath import rid_of as _rid_of, RID_RE

ID = 'C46'
TIERS = {'quick': {'runs': 7500, 'budget_s': 55, 'wall_cap': 120, 'block': 50},
         'thorough': {'runs': 300000, 'budget_s': 840, 'wall_cap': 120, 'block': 50}}
SHRINK_LISTS = ['requests']
COVERAGE_RULE = ('one run = one configuration (execution-profile mode with a default profile, a named profile and a cloned profile '
                 'instance, or legacy mode with session/cluster defaults) in which every option is independently set or left unset at '
                 'statement, prepared-statement, profile and session level, and 4-12 requests (simple, bound, batch) each with a probe: '
                 '"ok" (node decodes consistency / serial consistency / page size; first contacted node; row shape), "silent" (nodes drop '
                 'the request: the virtual instant of OperationTimedOut), "error" (UNAVAILABLE injected: which tagged retry policy is '
                 'consulted), "slow" (node answers late: which tagged speculative policy plans, and whether a second attempt appears). '
                 'The configuration space is sampled, not enumerated; distinct = event-log digest; non-trivial = some statement-level '
                 'option differed from the profile/session default it overrides')
RULES = {
    'C46/wire': 'the consistency level, serial consistency level and page size decoded by the node are the statement\'s own setting when it has '
                'one (bound: else the prepared statement\'s), else the profile\'s / session\'s',
    'C46/timeout': 'a request nobody answers fails with OperationTimedOut at the timeout given to execute(), else the profile\'s request_timeout '
                   '(legacy: session.default_timeout)',
    'C46/policy': 'the retry policy consulted is the statement\'s, else the profile\'s (legacy: the cluster\'s default); the query plan comes from '
                  'the profile\'s load-balancing policy; the speculative plan from the profile\'s policy and only for idempotent statements',
    'C46/rows': 'rows have the shape of the profile\'s (legacy: the session\'s) row factory',
}
WORLD_INFO = {'real': ['Session.execute_async/_create_response_future/_maybe_get_execution_profile, ExecutionProfile, ProfileManager',
                       'SimpleStatement/PreparedStatement/BoundStatement/BatchStatement option inheritance', 'ResponseFuture timeout/retry/'
                       'speculative paths, message encoders'],
              'stub': ['libev C binding', 'sockets/TCP', 'ThreadPoolExecutor', 'fake nodes (independent decoder)', 'tagged recording policies']}
ASSUMPTIONS = ['timeout tolerance 60 ms of virtual time', 'fetch_size has no profile level: unset means session.default_fetch_size']
REQUIRED_PROBES = ['prepared_options_set_after_a_bind', 'statement_overrides_consistency', 'consistency_any', 'bound_inherits_prepared', 'statement_retry_policy', 'timeout_argument',
                   'profile_timeout', 'speculative_for_idempotent', 'no_speculative_for_non_idempotent', 'named_profile', 'cloned_profile',
                   'legacy_mode', 'batch_statement', 'paging_disabled', 'timeout_expires_before_next_speculative_attempt']

CLS = [0, 1, 4, 6, 10]          # ANY ONE QUORUM LOCAL_QUORUM LOCAL_ONE
SERIALS = [8, 9]
UNSET = 'UNSET'


def prepare():
    seams.install_static()
    quiet_logging()


def rid_of(query):
    sp = getattr(query, '_statements_and_parameters', None)
    if sp:
        m = RID_RE.search(str(sp[0][1]))
        return int(m.group(1)) if m else None
    return _rid_of(query)


def gen_level(rng, with_fetch=True):
    return {'cl': rng.choice([None, None] + CLS), 'serial': rng.choice([None, None] + SERIALS),
            'fetch': rng.choice([UNSET, UNSET, 7, 500, None]) if with_fetch else UNSET,
            'retry': rng.random() < 0.35}


def gen_profile(rng, n, name):
    return {'name': name, 'cl': rng.choice(CLS[1:]), 'serial': rng.choice([None] + SERIALS), 'timeout': rng.choice([0.6, 1.1, 2.3]),
            'first': rng.randrange(n), 'spec': rng.random() < 0.6, 'row': rng.choice(['named', 'tuple', 'dict']),
            # the speculative plan may still have attempts left when the timeout in effect expires (delay longer than what remains)
            'spec_delay': rng.choice([0.05, 0.05, 0.2, 0.5, 1.5]), 'spec_attempts': rng.choice([1, 1, 2, 3])}


def gen_plan(rng, tier):
    n = rng.choice([2, 3])
    mode = 'legacy' if rng.random() < 0.3 else 'profile'
    profiles = [gen_profile(rng, n, 'default')]
    if mode == 'profile':
        profiles.append(gen_profile(rng, n, 'p1'))
        profiles.append(dict(gen_profile(rng, n, 'clone'), base=rng.choice(['default', 'p1'])))
    requests = []
    for i in range(rng.randrange(4, 13)):
        kind = rng.choice(['simple', 'simple', 'bound', 'bound', 'batch'])
        r = {'kind': kind, 'probe': rng.choice(['ok', 'ok', 'silent', 'error', 'slow']), 'stmt': gen_level(rng, with_fetch=kind != 'batch'),
             'idempotent': rng.random() < 0.5, 'timeout_arg': rng.choice([UNSET, UNSET, 0.35, 0.9]),
             'profile': rng.choice(['default', 'default', 'p1', 'clone']) if mode == 'profile' else 'default'}
        if kind == 'bound':
            r['prepared'] = dict(gen_level(rng), idempotent=rng.random() < 0.5)
            r['prebind'] = rng.random() < 0.4
            r['idempotent'] = rng.choice([None, None, True, False])       # None: not touched on the bound statement
        requests.append(r)
    return {'cluster': default_cluster_spec(n, versions=(3, 4, 5)), 'version': rng.choice([3, 4, 4, 5]), 'mode': mode, 'profiles': profiles,
            'session_fetch': rng.choice([UNSET, 33, 5000]), 'requests': requests, 'strategy': gen_strategy(rng), 'time_jump_p': 0}


# ------------------------------------------------------------------------------------------------ expected (documented precedence)
def pick(*vals):
    for v in vals:
        if v is not None:
            return v
    return None


def expected(plan, r):
    prof = dict((p['name'], p) for p in plan['profiles'])[r['profile']]
    s = r['stmt']
    p = r.get('prepared') or {}
    out = {}
    out['cl'] = pick(s['cl'], p.get('cl'), prof['cl'])
    out['serial'] = pick(s['serial'], p.get('serial'), prof['serial'])
    f = s['fetch']
    if f == UNSET:
        f = p.get('fetch', UNSET)
    if f == UNSET:
        f = 5000 if plan['session_fetch'] == UNSET else plan['session_fetch']
    out['fetch'] = f
    out['retry'] = 'stmt' if s['retry'] else ('prepared' if p.get('retry') else 'profile:%s' % prof['name'])
    out['timeout'] = prof['timeout'] if r['timeout_arg'] == UNSET else r['timeout_arg']
    # a cloned profile shares the load-balancing policy object of its base (documented: shallow clone)
    lb = dict((p_['name'], p_) for p_ in plan['profiles'])[prof['base']] if prof.get('base') else prof
    out['first'] = lb['first']
    out['lbp_tag'] = 'profile:%s' % lb['name']
    if r['kind'] == 'bound':
        idem = p.get('idempotent', False) if r['idempotent'] is None else r['idempotent']
    else:
        idem = bool(r['idempotent'])
    out['idempotent'] = idem
    out['spec'] = ('profile:%s' % prof['name']) if (prof['spec'] and idem and plan['mode'] == 'profile') else None
    out['row'] = prof['row']
    return out


# ------------------------------------------------------------------------------------------------ run
def run_plan(plan, seed, choices=None):
    w = FullWorld(plan, seed, choices, horizon=200.0, step_cap=4000000)
    sim, fc, cpol, ccl, cq = w.sim, w.fc, w.cpol, w.ccl, w.M['cq']
    n = len(fc.nodes)
    V = Violations()
    st = {}
    consulted = {'retry': [], 'spec': [], 'lbp': []}

    class TagRetry(cpol.RetryPolicy):
        def __init__(self, tag):
            self.tag = tag

        def _note(self, query, method):
            consulted['retry'].append((sim.nlog, self.tag, rid_of(query), method))
            return (cpol.RetryPolicy.RETHROW, None)

        def on_read_timeout(self, query, *a, **k):
            return self._note(query, 'on_read_timeout')

        def on_write_timeout(self, query, *a, **k):
            return self._note(query, 'on_write_timeout')

        def on_unavailable(self, query, *a, **k):
            return self._note(query, 'on_unavailable')

        def on_request_error(self, query, *a, **k):
            return self._note(query, 'on_request_error')

    class TagSpec(cpol.SpeculativeExecutionPolicy):
        def __init__(self, tag, delay=0.05, attempts=1):
            self.tag, self.delay, self.attempts = tag, delay, attempts

        def new_plan(self, keyspace, statement):
            consulted['spec'].append((sim.nlog, self.tag, rid_of(statement)))
            return cpol.ConstantSpeculativeExecutionPolicy.ConstantSpeculativeExecutionPlan(self.delay, self.attempts)

    class TagLBP(cpol.LoadBalancingPolicy):
        def __init__(self, tag, first):
            cpol.LoadBalancingPolicy.__init__(self)
            self.tag, self.first = tag, first
            self.hosts = {}

        def populate(self, cluster, hosts):
            for h in hosts:
                self.hosts[str(h.endpoint.address)] = h

        def distance(self, host):
            return cpol.HostDistance.LOCAL

        def make_query_plan(self, working_keyspace=None, query=None):
            order = [(self.first + k) % n for k in range(n)]
            out = [self.hosts[fc.nodes[i].addr] for i in order if fc.nodes[i].addr in self.hosts]
            if query is not None:
                consulted['lbp'].append((sim.nlog, self.tag, rid_of(query)))
            return iter(out)

        def on_up(self, host):
            self.hosts[str(host.endpoint.address)] = host

        def on_add(self, host):
            self.hosts[str(host.endpoint.address)] = host

        def on_down(self, host):
            pass

        def on_remove(self, host):
            self.hosts.pop(str(host.endpoint.address), None)

    ROWF = {'named': cq.named_tuple_factory, 'tuple': cq.tuple_factory, 'dict': cq.dict_factory}
    profs = dict((p['name'], p) for p in plan['profiles'])
    exp_all = [expected(plan, r) for r in plan['requests']]
    # server scripts per probe
    for i, r in enumerate(plan['requests']):
        if r['probe'] == 'silent':
            fc.scripts[i] = [{'kind': 'drop'}] * 6
        elif r['probe'] == 'error':
            fc.scripts[i] = [{'kind': 'error', 'error': 'unavailable'}] * 3
        elif r['probe'] == 'slow':
            fc.scripts[i] = [{'kind': 'ok', 'delay': 0.4}, {'kind': 'ok', 'delay': 0.4}, {'kind': 'ok', 'delay': 0.4}]
        else:
            fc.scripts[i] = [{'kind': 'ok', 'delay': 0.002}]

    def make_profile(p):
        return ccl.ExecutionProfile(load_balancing_policy=TagLBP('profile:%s' % p['name'], p['first']), retry_policy=TagRetry('profile:%s' % p['name']),
                                    consistency_level=p['cl'], serial_consistency_level=p['serial'], request_timeout=p['timeout'],
                                    row_factory=ROWF[p['row']],
                                    speculative_execution_policy=TagSpec('profile:%s' % p['name'], p.get('spec_delay', 0.05), p.get('spec_attempts', 1)) if p['spec'] else None)

    def apply_level(stmt, lvl, tag):
        if lvl['cl'] is not None:
            stmt.consistency_level = lvl['cl']
        if lvl['serial'] is not None:
            stmt.serial_consistency_level = lvl['serial']
        if lvl.get('fetch', UNSET) != UNSET:
            stmt.fetch_size = lvl['fetch']
        if lvl['retry']:
            stmt.retry_policy = TagRetry(tag)

    def main():
        try:
            if plan['mode'] == 'profile':
                eps = {ccl.EXEC_PROFILE_DEFAULT: make_profile(profs['default']), 'p1': make_profile(profs['p1'])}
                cluster = w.make_cluster(protocol_version=plan['version'], idle_heartbeat_interval=0, execution_profiles=eps)
                session = cluster.connect(wait_for_all_pools=True)
                c = profs['clone']
                st['clone'] = session.execution_profile_clone_update(
                    ccl.EXEC_PROFILE_DEFAULT if c['base'] == 'default' else 'p1',
                    consistency_level=c['cl'], serial_consistency_level=c['serial'], request_timeout=c['timeout'],
                    row_factory=ROWF[c['row']], retry_policy=TagRetry('profile:clone'),
                    speculative_execution_policy=TagSpec('profile:clone', c.get('spec_delay', 0.05), c.get('spec_attempts', 1)) if c['spec'] else None)
            else:
                sim.probe('legacy_mode')
                d = profs['default']
                cluster = w.ccl.Cluster(contact_points=[w.endpoint(0)], compression=False, monitor_reporting_enabled=False, executor_threads=2,
                                        connect_timeout=5, control_connection_timeout=2.0, idle_heartbeat_interval=0,
                                        protocol_version=plan['version'], load_balancing_policy=TagLBP('profile:default', d['first']),
                                        default_retry_policy=TagRetry('profile:default'))
                w.cluster = cluster
                session = cluster.connect(wait_for_all_pools=True)
                session.default_consistency_level = d['cl']
                session.default_serial_consistency_level = d['serial']
                session.default_timeout = d['timeout']
                session.row_factory = ROWF[d['row']]
            if plan['session_fetch'] != UNSET:
                session.default_fetch_size = plan['session_fetch']
        except Exception as e:
            st['connect_error'] = repr(e)
            return
        w.session = session
        st['res'] = {}
        for i, r in enumerate(plan['requests']):
            q = "SELECT * FROM ks1.t /*rid=%d*/" % i
            params = None
            try:
                if r['kind'] == 'simple':
                    stmt = cq.SimpleStatement(q, is_idempotent=bool(r['idempotent']))
                    apply_level(stmt, r['stmt'], 'stmt')
                elif r['kind'] == 'batch':
                    stmt = cq.BatchStatement()
                    stmt.add(cq.SimpleStatement("INSERT INTO ks1.t (a) VALUES (1) /*rid=%d*/" % i))
                    stmt.add(cq.SimpleStatement("INSERT INTO ks1.t (a) VALUES (2) /*rid=%d*/" % i))
                    stmt.is_idempotent = bool(r['idempotent'])
                    apply_level(stmt, r['stmt'], 'stmt')
                    sim.probe('batch_statement')
                else:
                    ps = session.prepare("SELECT * FROM ks1.t WHERE a = ? /*rid=%d*/" % i)
                    if r.get('prebind'):
                        # the application already bound this prepared statement once (options set afterwards still count)
                        ps.bind((i,))
                        sim.probe('prepared_options_set_after_a_bind')
                    apply_level(ps, r['prepared'], 'prepared')
                    ps.is_idempotent = bool(r['prepared']['idempotent'])
                    stmt = ps.bind((i,))
                    apply_level(stmt, r['stmt'], 'stmt')
                    if r['idempotent'] is not None:
                        stmt.is_idempotent = r['idempotent']
                kw = {}
                if r['timeout_arg'] != UNSET:
                    kw['timeout'] = r['timeout_arg']
                if plan['mode'] == 'profile':
                    kw['execution_profile'] = {'default': ccl.EXEC_PROFILE_DEFAULT, 'p1': 'p1', 'clone': st['clone']}[r['profile']]
                t0 = sim.vnow()
                s0 = sim.nlog
                st['pending'] = (i, t0)
                try:
                    rs = session.execute(stmt, params, **kw)
                    rows = list(rs.current_rows or [])
                    st['res'][i] = ('ok', rows[0] if rows else None, t0, sim.vnow(), s0)
                except Exception as e:
                    st['res'][i] = ('err', e, t0, sim.vnow(), s0)
            except Exception as e:
                st['res'][i] = ('build-error', e, None, None, None)
            w.sleep(0.6)          # let late replies and speculative attempts land before the next request

    w.spawn(main, 'main')
    status = w.run_until_users_done()
    if st.get('connect_error'):
        raise HarnessError('connect failed: %s' % st['connect_error'])
    if status != 'done':
        pend = st.get('pending')
        if pend is not None and pend[0] not in st.get('res', {}) and sim.vnow() - pend[1] > 60:
            # every request has a timeout in effect (at most 2.3 s): execute() that has not returned a minute later never will
            i, r = pend[0], plan['requests'][pend[0]]
            e = expected(plan, r)
            V.check('C46/timeout')
            V.add('C46/timeout', 'no-timeout:never-completed', 'execute() of request %d (%s, probe %s, idempotent %r, profile %s, timeout argument %r) had not returned '
                  '%.0f s after the call although the timeout in effect is %.2f s' % (i, r['kind'], r['probe'], e['idempotent'], r['profile'], r['timeout_arg'],
                                                                                     sim.vnow() - pend[1], e['timeout']))
            return {'violations': V.items, 'rules_checked': V.checked, 'nontrivial': True, 'faults': dict(w.net.fault_counts),
                    'summary': {'status': status, 'requests': len(plan['requests']), 'mode': plan['mode']}, 'stratum': plan['mode']}
        raise HarnessError('run did not finish: %s' % status)
    import cassandra
    nontrivial = False
    logs = fc.all_logs()
    for i, r in enumerate(plan['requests']):
        res = st['res'].get(i)
        if res is None:
            continue
        e = exp_all[i]
        prof = profs[r['profile']]
        desc = 'request %d %s probe=%s profile=%s stmt=%r prepared=%r timeout_arg=%r mode=%s profile settings %r' % (
            i, r['kind'], r['probe'], r['profile'], r['stmt'], r.get('prepared'), r['timeout_arg'], plan['mode'],
            dict((k, prof[k]) for k in ('cl', 'serial', 'timeout', 'first', 'spec', 'row')))
        if res[0] == 'build-error':
            V.add('C46/wire', 'statement-construction-failed', '%r; %s' % (res[1], desc))
            continue
        if r['stmt']['cl'] is not None and r['stmt']['cl'] != prof['cl']:
            nontrivial = True
            sim.probe('statement_overrides_consistency')
        if e['cl'] == 0:
            sim.probe('consistency_any')
        if r['kind'] == 'bound' and r['stmt']['cl'] is None and r['prepared']['cl'] is not None:
            sim.probe('bound_inherits_prepared')
        if r['profile'] == 'p1':
            sim.probe('named_profile')
        if r['profile'] == 'clone':
            sim.probe('cloned_profile')
        entries = [x for x in logs if x.get('rid') == i and x.get('kind') in ('query', 'execute', 'batch') and not x.get('unprepared')]
        # ---- wire
        if entries:
            V.check('C46/wire')
            x = entries[0]
            if x.get('consistency') != e['cl']:
                V.add('C46/wire', 'consistency:%s' % r['kind'], 'node decoded consistency %r, expected %r; %s' % (x.get('consistency'), e['cl'], desc))
            if x.get('serial_consistency') != e['serial']:
                V.add('C46/wire', 'serial-consistency:%s' % r['kind'], 'node decoded serial consistency %r, expected %r; %s'
                      % (x.get('serial_consistency'), e['serial'], desc))
            if r['kind'] != 'batch':
                want = e['fetch']
                if want is None:
                    sim.probe('paging_disabled')
                if x.get('page_size') != want:
                    V.add('C46/wire', 'page-size:%s' % r['kind'], 'node decoded page size %r, expected %r (session.default_fetch_size %r); %s'
                          % (x.get('page_size'), want, plan['session_fetch'], desc))
            # ---- plan from the profile's LBP
            V.check('C46/policy')
            lb = [c for c in consulted['lbp'] if c[2] == i]
            want_tag = e['lbp_tag']
            if not lb or lb[0][1] != want_tag:
                V.add('C46/policy', 'wrong-load-balancing-policy', 'plan came from %r, expected %r; %s' % (lb[:1], want_tag, desc))
            elif x['node'] != e['first'] if 'node' in x else False:
                V.add('C46/policy', 'first-host', 'first attempt went to node %r, expected %r; %s' % (x.get('node'), e['first'], desc))
        elif r['probe'] == 'ok':
            V.add('C46/wire', 'request-never-reached-a-node', desc)
        # ---- probes
        if r['probe'] == 'ok':
            V.check('C46/rows')
            if res[0] != 'ok':
                V.add('C46/rows', 'request-failed', 'execute raised %r; %s' % (res[1], desc))
            elif r['kind'] != 'batch' and res[1] is not None:
                row = res[1]
                shape = 'dict' if isinstance(row, dict) else ('named' if hasattr(row, '_fields') else ('tuple' if isinstance(row, tuple) else type(row).__name__))
                if shape != e['row']:
                    V.add('C46/rows', 'row-shape', 'row %r has shape %s, expected %s; %s' % (row, shape, e['row'], desc))
        elif r['probe'] == 'silent':
            V.check('C46/timeout')
            (sim.probe('timeout_argument') if r['timeout_arg'] != UNSET else sim.probe('profile_timeout'))
            if e['spec'] and e['timeout'] <= prof.get('spec_delay', 0.05) * prof.get('spec_attempts', 1):
                sim.probe('timeout_expires_before_next_speculative_attempt')
            if res[0] != 'err' or not isinstance(res[1], cassandra.OperationTimedOut):
                V.add('C46/timeout', 'no-timeout', 'expected OperationTimedOut after %.2f s, got %r; %s' % (e['timeout'], res[1], desc))
            elif abs((res[3] - res[2]) - e['timeout']) > 0.06:
                V.add('C46/timeout', 'wrong-timeout:%s' % ('argument-ignored' if r['timeout_arg'] != UNSET else 'profile'),
                      'timed out after %.3f s, expected %.2f s; %s' % (res[3] - res[2], e['timeout'], desc))
        elif r['probe'] == 'error':
            V.check('C46/policy')
            rc = [c for c in consulted['retry'] if c[2] == i]
            if e['retry'] in ('stmt', 'prepared'):
                sim.probe('statement_retry_policy')
            if not rc:
                V.add('C46/policy', 'no-retry-policy-consulted', 'UNAVAILABLE was injected but no tagged retry policy was asked (result %r); %s' % (res[1], desc))
            elif rc[0][1] != e['retry']:
                V.add('C46/policy', 'wrong-retry-policy', 'retry policy %r was consulted, expected %r; %s' % (rc[0][1], e['retry'], desc))
        elif r['probe'] == 'slow':
            V.check('C46/policy')
            sc = [c for c in consulted['spec'] if c[2] == i]
            attempts = len(entries)
            timed_out = res[0] == 'err' and isinstance(res[1], cassandra.OperationTimedOut)
            if e['spec']:
                sim.probe('speculative_for_idempotent')
                if not sc or sc[0][1] != e['spec']:
                    V.add('C46/policy', 'wrong-speculative-policy', 'speculative plan came from %r, expected %r; %s' % (sc[:1], e['spec'], desc))
                elif attempts < 2 and n >= 2 and e['timeout'] > prof.get('spec_delay', 0.05) + 0.15 and prof.get('spec_delay', 0.05) < 0.3:
                    V.add('C46/policy', 'no-speculative-attempt', 'only %d attempt(s) reached the nodes although %r planned one after %.2f s; %s'
                          % (attempts, e['spec'], prof.get('spec_delay', 0.05), desc))
            else:
                if prof['spec'] and not e['idempotent']:
                    sim.probe('no_speculative_for_non_idempotent')
                if sc:
                    V.add('C46/policy', 'speculative-policy-consulted-unexpectedly', 'speculative plan requested from %r (idempotent %r); %s'
                          % (sc[0][1], e['idempotent'], desc))
                elif attempts > 1 and not timed_out:
                    V.add('C46/policy', 'unexpected-second-attempt', '%d attempts reached the nodes; %s' % (attempts, desc))
    for cr in sim.crashes:
        if not cr[0].startswith('main'):
            V.add('C46/policy', 'thread-exception', 'thread %s died: %s' % (cr[0], cr[1]))
    return {'violations': V.items, 'rules_checked': V.checked, 'nontrivial': nontrivial, 'faults': dict(w.net.fault_counts),
            'summary': {'status': status, 'requests': len(plan['requests']), 'mode': plan['mode']}, 'stratum': plan['mode']}
