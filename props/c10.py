"""C10 A failed connection fails every pending request exactly once (world W-CONN)."""
import errno

from dsim.core import Sim, HarnessError
from dsim import seams
from fakecass import codec as C
from props.common import gen_stalls, gen_strategy, quiet_logging, Violations, set_knob
from worlds.conn import ConnWorld, HandshakePeer

ID = 'C10'
TIERS = {'quick': {'runs': 30000, 'budget_s': 50, 'wall_cap': 60, 'block': 300},
         'thorough': {'runs': 2000000, 'budget_s': 840, 'wall_cap': 60, 'block': 300}}
SHRINK_LISTS = ['requests']
COVERAGE_RULE = ('one run = protocol 3/4, 0-150 outstanding requests from 1-3 sender threads, optional continuous-paging '
                 'session, one failure (kind x trigger point: after the k-th request reached the peer, plus a delay), '
                 'CALLBACK_ERR_THREAD_THRESHOLD knob 2/100, line-level pre-emption inside send_msg/defunct/'
                 'error_all_requests/close/process_msg; distinct = event-log digest; non-trivial = the failure fired while '
                 'at least one request was outstanding')
RULES = {
    'C10/once': 'every handler registered by a send_msg that returned normally is invoked exactly once (its response or an error)',
    'C10/error-type': 'a handler that did not get its own response gets a ConnectionException',
    'C10/no-late': 'no response is delivered to a handler after it was given an error',
    'C10/refuse': 'a send_msg that starts after defunct()/close() returned raises ConnectionShutdown',
    'C10/cp-once': 'a continuous paging session on the failed connection reports the error to its consumer exactly once',
}
WORLD_INFO = {'real': ['cassandra.connection.Connection (send_msg, defunct, error_all_requests, error_all_cp_sessions, '
                       'process_msg, ContinuousPagingSession)', 'LibevConnection.close/handle_read/handle_write', 'LibevLoop'],
              'stub': ['libev C binding', 'sockets/TCP', 'scripted peer', 'sender/closer threads (harness)']}
ASSUMPTIONS = ['a request whose OWN response frame is undecodable may receive that decode exception instead of a connection error',
               'heartbeat failure is represented by what ConnectionHeartbeat does on failure: connection.defunct(exc) from another thread (the heartbeat itself is C44)']
REQUIRED_PROBES = ['handler_raised', 'failure_with_outstanding', 'error_thread_path', 'send_after_failure', 'cp_session', 'concurrent_failures']

KINDS = ['rst', 'eof', 'garbage_body', 'protocol_error', 'negative_len', 'bad_version', 'close_thread',
         'defunct_thread', 'write_error']


def prepare():
    seams.install_static()
    quiet_logging()


def gen_plan(rng, tier):
    n = rng.choice([0, 1, 2, 3, 5, 8, 12, 30, 150])
    nthreads = rng.choice([1, 2, 3])
    reqs = [{'thread': rng.randrange(nthreads), 'delay': rng.choice([None, None, 0.0, 0.001, 0.005, 0.02]),
             'think': rng.choice([0, 0, 0, 0.001])} for _ in range(n)]
    if rng.random() < 0.3:
        # misbehaving handlers: they record the invocation and then raise; the other handlers must still be served
        for r in reqs:
            if rng.random() < 0.3:
                r['raises'] = True
    stalls = gen_stalls(rng, ['send_msg', 'send_msg', 'defunct', 'error_all_requests', 'close', 'process_msg'], 0.35)
    plan_ = {
        'version': rng.choice([3, 4, 4]),
        'threshold': rng.choice([2, 100]),
        'nthreads': nthreads,
        'requests': reqs,
        'failure': {'kind': rng.choice(KINDS), 'after': rng.randrange(0, n + 1), 'delay': rng.choice([0, 0, 0.0005, 0.003, 0.02])},
        'failure2': rng.choice([None, None, 'defunct_thread', 'close_thread', 'rst']),
        'cp': rng.random() < 0.3,
        'extra_sends': rng.choice([0, 1, 3]),
        'chunk_mode': rng.choice(['whole', 'mixed']),
        'strategy': gen_strategy(rng),
        'line_p': rng.choice([0, 0.002, 0.02, 0.1]),
        'points': rng.choice([0, 1, 2, 4]),
        'time_jump_p': rng.choice([0, 0, 0.02, 0.2]),
    }
    plan_.update(stalls)
    return plan_


def plan_ok(plan):
    return plan['failure']['after'] <= len(plan['requests'])


class C10Peer(HandshakePeer):
    def __init__(self, world, plan):
        HandshakePeer.__init__(self, world, versions=(3, 4))
        self.plan = plan
        self.nreq = 0
        self.outstanding = {}     # stream -> rid
        self.fired = False
        self.fail_hook = None

    def on_query(self, pc, fr, req):
        sim = self.sim
        q = (req or {}).get('query', '')
        try:
            k = int(q.split('rid=')[1].split('*')[0])
        except Exception:
            return
        self.nreq += 1
        stream = fr['stream']
        self.outstanding[stream] = k
        spec = self.plan['requests'][k] if k < len(self.plan['requests']) else {'delay': None}
        v = fr['version']
        if spec['delay'] is not None:
            def emit():
                if self.outstanding.get(stream) == k:
                    del self.outstanding[stream]
                    body = C.rows_body('ks', 't', [('rid', C.T_INT)], [[k]], version=v)
                    pc.send_frame(v, stream, C.RESULT, body)
            sim.at(spec['delay'], emit, 'reply rid=%d' % k)
        self.maybe_fail(pc)

    def maybe_fail(self, pc):
        f = self.plan['failure']
        if not self.fired and self.nreq >= f['after']:
            self.fired = True
            self.sim.at(f['delay'], lambda: self.fail_hook(pc), 'inject-failure')


def run_plan(plan, seed, choices=None):
    w = ConnWorld(plan, seed, choices, horizon=40.0, step_cap=1500000,
                  net={'chunk_mode': plan['chunk_mode']})
    sim, M = w.sim, w.M
    sim.time_jump_p = plan.get('time_jump_p', 0)
    cconn = M['cconn']
    Conn = cconn.Connection
    proto = __import__('cassandra.protocol', fromlist=['x'])
    set_knob(Conn, 'CALLBACK_ERR_THREAD_THRESHOLD', plan['threshold'])
    peer = C10Peer(w, plan)
    w.listen(peer)
    V = Violations()
    version = plan['version']
    fkind = plan['failure']['kind']
    handlers = {}        # rid -> {'stream', 'registered' (send returned ok), 'send_start', 'send_ret', 'calls': [(seq, kind, type)]}
    sends = []           # (start_seq, ret_seq, rid, outcome type name)
    st = {'conn': None, 'threads_done': 0, 'fail_ret': None, 'fail_at': None, 'cp': None, 'cp_seen': [], 'cp_done': False,
          'outstanding_at_failure': None}
    if plan['line_p'] or plan['points'] or plan.get('focus_stall'):
        sim.enable_line_preemption([Conn.send_msg, Conn.defunct, Conn.error_all_requests, Conn.process_msg,
                                    w.conn_class.close, w.conn_class.push], p=plan['line_p'], points=plan['points'],
                                   est_lines=40 * (len(plan['requests']) + 2))

    def make_cb(k):
        h = handlers[k]

        def cb(response):
            if isinstance(response, proto.ErrorMessage):
                # a server ERROR frame on this request's own stream is its response
                h['calls'].append((sim.nlog, 'response', type(response).__name__, True))
            elif isinstance(response, Exception):
                h['calls'].append((sim.nlog, 'error', type(response).__name__, isinstance(response, cconn.ConnectionException)))
            else:
                rows = getattr(response, 'parsed_rows', None)
                own = bool(rows) and rows[0][0] == k
                h['calls'].append((sim.nlog, 'response', type(response).__name__, own))
            sim.rec('handler', 'rid=%d %s' % (k, type(response).__name__))
            if k < len(plan['requests']) and plan['requests'][k].get('raises'):
                sim.probe('handler_raised')
                raise RuntimeError('handler of rid %d raises (harness: misbehaving handler)' % k)
        return cb

    def do_send(conn, k):
        with conn.lock:
            if conn.in_flight > conn.max_request_id:
                return
            stream = conn.get_request_id()
            conn.in_flight += 1
        handlers[k] = h = {'stream': stream, 'registered': False, 'calls': [], 'start': None, 'ret': None}
        h['start'] = sim.nlog
        sim.rec('send.start', 'rid=%d' % k)
        try:
            conn.send_msg(proto.QueryMessage('SELECT /*rid=%d*/' % k, 1), stream, make_cb(k))
        except Exception as e:
            h['ret'] = sim.nlog
            h['exc'] = e
            sim.rec('send.raise', 'rid=%d %s' % (k, type(e).__name__))
            return
        h['ret'] = sim.nlog
        h['registered'] = True
        sim.rec('send.ok', 'rid=%d' % k)

    def sender(tid):
        conn = st['conn']
        for k, spec in enumerate(plan['requests']):
            if spec['thread'] != tid:
                continue
            do_send(conn, k)
            if spec['think']:
                cconn.time.sleep(spec['think'])
        # further sends after (or around) the failure
        for j in range(plan['extra_sends']):
            cconn.time.sleep(0.004 * (j + 1))
            do_send(conn, 1000 + tid * 10 + j)
        st['threads_done'] += 1

    def wrap_failure_api(conn):
        for name in ('defunct', 'close'):
            orig = getattr(conn, name)

            def wrapper(*a, _orig=orig, _name=name, **k):
                r = _orig(*a, **k)
                if st['fail_ret'] is None:
                    st['fail_ret'] = sim.nlog
                    sim.rec('failure.returned', _name)
                return r
            setattr(conn, name, wrapper)

    def inject(pc):
        inject_kind(pc, fkind)
        k2 = plan.get('failure2')
        if k2:
            # a second, concurrent failure from another source (e.g. heartbeat thread + socket error)
            sim.probe('concurrent_failures')
            inject_kind(pc, k2)

    def inject_kind(pc, fkind):
        conn = st['conn']
        if st['fail_at'] is None:
            st['outstanding_at_failure'] = sum(1 for h in handlers.values() if h['registered'] and not h['calls'])
        st['fail_at'] = sim.nlog if st['fail_at'] is None else st['fail_at']
        sim.rec('fault', fkind)
        w.net.count(fkind)
        v = version
        streams = sorted(peer.outstanding)
        target = streams[0] if streams else 0
        if fkind == 'rst':
            pc.conn.rst()
        elif fkind == 'write_error':
            pc.conn.rst('epipe')
        elif fkind == 'eof':
            pc.conn.server_close()
        elif fkind == 'garbage_body':
            peer.outstanding.pop(target, None)
            pc.send_frame(v, target, C.RESULT, C.w_int(2) + b'\x00\x00\x00\x01\x00\x00\x00\x05garbage')
        elif fkind == 'protocol_error':
            peer.outstanding.pop(target, None)
            pc.send_frame(v, target, C.ERROR, C.error_body(C.E_PROTOCOL, 'Invalid message'))
        elif fkind == 'negative_len':
            import struct
            pc.conn.server_send(struct.pack('>BBhBi', 0x80 | v, 0, target, C.RESULT, -5))
        elif fkind == 'bad_version':
            import struct
            pc.conn.server_send(struct.pack('>BBhBi', 0x80 | 9, 0, target, C.RESULT, 0))
        elif fkind == 'close_thread':
            w.spawn(lambda: conn.close(), 'closer')
        elif fkind == 'defunct_thread':
            w.spawn(lambda: conn.defunct(cconn.ConnectionException('heartbeat failure stand-in')), 'heartbeat-standin')

    peer.fail_hook = inject

    def cp_consumer(session):
        try:
            for row in session.results():
                st['cp_seen'].append((sim.nlog, 'row'))
        except Exception as e:
            st['cp_seen'].append((sim.nlog, 'error', type(e).__name__))
            # a second iteration must not report the same error again
            try:
                for row in session.results():
                    st['cp_seen'].append((sim.nlog, 'row'))
            except Exception as e2:
                st['cp_seen'].append((sim.nlog, 'error', type(e2).__name__))
        st['cp_done'] = True

    def main():
        try:
            conn = w.factory(10.0, protocol_version=version, compression=False)
        except Exception as e:
            raise HarnessError('C10 handshake failed: %r' % (e,))
        st['conn'] = conn
        wrap_failure_api(conn)
        if plan['cp']:
            with conn.lock:
                s = conn.get_request_id()
                conn.in_flight += 1
            session = conn.new_continuous_paging_session(s, proto.ProtocolHandler.decode_message,
                                                         lambda names, rows: rows, None)
            st['cp'] = session
            sim.probe('cp_session')
            w.spawn(cp_consumer, 'cp-consumer', session)
        if not plan['requests']:
            peer.maybe_fail(peer.conns[0])
        ts = [w.spawn(sender, 'sender%d' % t, t) for t in range(plan['nthreads'])]
        for t in ts:
            t.join()

    w.spawn(main, 'main')

    def finished():
        if st['threads_done'] < plan['nthreads'] or st['fail_at'] is None:
            return False
        if plan['cp'] and not st['cp_done']:
            return False
        return all(h['calls'] or not h['registered'] for h in handlers.values())

    status = sim.run(until=finished)
    if status == 'done':
        # drain: give late deliveries a chance to (wrongly) arrive
        sim.run(until=lambda: not sim.events and all(t.state != 'runnable' for t in sim.threads))
    conn = st['conn']
    if conn is None:
        raise HarnessError('no connection')
    failed = conn.is_defunct or conn.is_closed
    fail_ret = st['fail_ret']
    for k, h in sorted(handlers.items()):
        if not h['registered']:
            continue
        V.check('C10/once')
        calls = h['calls']
        if len(calls) == 0:
            if failed:
                raced = fail_ret is not None and h['start'] < fail_ret and (h['ret'] is None or h['ret'] > st['fail_at'])
                V.add('C10/once', 'never-invoked-send-raced-failure' if raced else 'never-invoked',
                      'handler of rid %d (stream %d) was never invoked although the connection failed (%s); send_msg started at '
                      'seq %s, returned at %s, failure injected at %s, defunct/close returned at %s'
                      % (k, h['stream'], fkind, h['start'], h['ret'], st['fail_at'], fail_ret))
            continue
        if len(calls) > 1:
            kinds = [c[1] for c in calls]
            late = kinds[0] == 'error' and 'response' in kinds[1:]
            V.add('C10/no-late' if late else 'C10/once', 'late-response-after-error' if late else 'invoked-twice',
                  'handler of rid %d invoked %d times: %r' % (k, len(calls), [(c[1], c[2]) for c in calls]))
        c = calls[0]
        V.check('C10/error-type')
        if c[1] == 'error' and not c[3]:
            own_frame = fkind == 'garbage_body'
            if not own_frame:
                V.add('C10/error-type', 'not-a-connection-error', 'handler of rid %d got %s' % (k, c[2]))
        if c[1] == 'response' and c[2] == 'ResultMessage' and not c[3]:
            V.add('C10/once', 'foreign-response', 'handler of rid %d got a response carrying another rid' % k)
    if fail_ret is not None:
        for k, h in sorted(handlers.items()):
            if h['start'] is not None and h['start'] > fail_ret:
                V.check('C10/refuse')
                sim.probe('send_after_failure')
                e = h.get('exc')
                if h['registered'] or not isinstance(e, cconn.ConnectionShutdown):
                    V.add('C10/refuse', 'send-accepted-after-failure',
                          'send_msg of rid %d started after defunct/close had returned and %s'
                          % (k, 'was accepted' if h['registered'] else 'raised %r' % (e,)))
    if plan['cp']:
        V.check('C10/cp-once')
        errs = [x for x in st['cp_seen'] if x[1] == 'error']
        if failed and len(errs) == 0:
            V.add('C10/cp-once', 'cp-never-errored-after-plain-close' if (conn.is_closed and not conn.is_defunct) else 'cp-never-errored',
                  'continuous paging consumer never saw an error after %s (consumer %s)' % (fkind, 'finished' if st['cp_done'] else 'still waiting at the horizon'))
        elif len(errs) > 1:
            V.add('C10/cp-once', 'cp-error-twice', 'consumer saw %r' % (st['cp_seen'],))
    for cr in sim.crashes:
        if cr[0].startswith(('event_loop', 'Thread', 'closer', 'heartbeat')):
            V.add('C10/once', 'thread-exception', 'thread %s died: %s' % (cr[0], cr[1]))
    if st['outstanding_at_failure']:
        sim.probe('failure_with_outstanding')
        if plan['threshold'] == 2 and st['outstanding_at_failure'] > 2:
            sim.probe('error_thread_path')
    states = ['%s/%s/%d' % (fkind, 'cp' if plan['cp'] else '-', min(st['outstanding_at_failure'] or 0, 3))]
    return {'violations': V.items, 'rules_checked': V.checked, 'nontrivial': bool(st['outstanding_at_failure']),
            'faults': dict(w.net.fault_counts), 'states': states,
            'summary': {'status': status, 'handlers': len(handlers), 'outstanding_at_failure': st['outstanding_at_failure']},
            'stratum': fkind}
