"""C41 Protocol version negotiation only steps down and terminates (W-FULL, connect phase)."""
from dsim import seams
from dsim.core import StepCap
from props.common import gen_strategy, quiet_logging, Violations
from worlds.full import FullWorld

ID = 'C41'
TIERS = {'quick': {'runs': 18000, 'budget_s': 50, 'wall_cap': 90, 'block': 100},
         'thorough': {'runs': 600000, 'budget_s': 840, 'wall_cap': 90, 'block': 100}}
SHRINK_LISTS = []
COVERAGE_RULE = ('one run = real Cluster.connect() against 1-3 fake nodes (all contact points); each node supports a drawn subset '
                 'of protocol versions {1,2,3,4,5} (DSE versions are always rejected: the fake node has no DSE dialect) and may offer v6 as beta, answering other versions with '
                 "Cassandra's ProtocolError texts; the client passes an explicit protocol_version or none, with or without "
                 'allow_beta_protocol_version; a node may be down (refused / black-holed connects); the first frame of every '
                 'connection is recorded by the node; distinct = event-log digest; non-trivial = at least one version was rejected')
RULES = {
    'C41/descending': 'the versions of successive connection attempts never step up (driver order DSE_V2, DSE_V1, 6, 5, 4, 3, 2, 1), each '
                      'step down goes to the next lower non-beta version, and a beta version is only sent when allowed',
    'C41/explicit': 'with an explicit protocol_version no other version is ever sent, and an unsupported one makes connect() fail',
    'C41/downgrades': 'without an explicit version, connect() succeeds when every reachable node supports some version >= 3 the driver supports',
    'C41/terminates': 'connect() returns or raises; after the lowest version was rejected nothing further is attempted on that host',
    'C41/agreed': 'on success the negotiated version is one the control node supports',
}
WORLD_INFO = {'real': ['Cluster.connect/protocol_downgrade, ControlConnection._try_connect/_reconnect_internal, ProtocolVersion.get_lower_supported',
                       'Connection handshake and ProtocolException handling, Connection.factory'],
              'stub': ['libev C binding', 'sockets/TCP', 'ThreadPoolExecutor', 'fake nodes (version gate written from the Cassandra error texts)']}
ASSUMPTIONS = ['only the connect phase is judged; v1/v2/DSE request bodies beyond the handshake and system queries are not needed here']
REQUIRED_PROBES = ['version_rejected', 'explicit_version', 'beta_offered', 'connect_failed', 'connect_succeeded', 'multi_host_downgrade']

ORDER = [66, 65, 6, 5, 4, 3, 2, 1]
NONBETA = [66, 65, 5, 4, 3, 2, 1]


def prepare():
    seams.install_static()
    quiet_logging()


def gen_plan(rng, tier):
    n = rng.choice([1, 1, 2, 3])
    nodes = []
    for i in range(n):
        k = rng.random()
        if k < 0.3:
            vs = [3, 4]
        elif k < 0.5:
            vs = [3, 4, 5]
        else:
            vs = sorted(rng.sample([1, 2, 3, 4, 5], rng.randrange(1, 5)))
        nd = {'dc': 'dc1', 'rack': 'r1', 'release': rng.choice(['3.11.4', '4.0.1']), 'versions': vs}
        if rng.random() < 0.4:
            # a version the node only speaks with the USE_BETA flag: 6 (Cassandra 4.x) or 5 (Cassandra 3.x, where v5 was still beta)
            beta = rng.choice([[6], [6], [5], [5, 6]])
            nd['beta_versions'] = beta
            nd['versions'] = [v for v in nd['versions'] if v not in beta] or [3, 4]
        nodes.append(nd)
    down = None
    if n > 1 and rng.random() < 0.3:
        down = {'node': rng.randrange(n), 'how': rng.choice(['refuse', 'blackhole'])}
    mute = None
    if n > 1 and down is None and rng.random() < 0.25:
        # a node that completes the handshake (so its version is settled on) and then never answers the control connection's
        # queries: the driver moves on to the next contact point with whatever version it had come down to
        mute = rng.randrange(n)
    return {'cluster': {'nodes': nodes}, 'contact': list(range(n)), 'mute': mute,
            'explicit': rng.choice([None, None, None, 1, 2, 3, 4, 5, 6, 65, 66]),
            'allow_beta': rng.random() < 0.3, 'down': down, 'strategy': gen_strategy(rng), 'time_jump_p': 0,
            'line_p': rng.choice([0, 0, 0.02, 0.1]), 'points': rng.choice([0, 2, 4])}


def run_plan(plan, seed, choices=None):
    w = FullWorld(plan, seed, choices, horizon=120.0, step_cap=200000)     # a negotiation that never ends runs into the step cap
    sim, fc = w.sim, w.fc
    if plan.get('mute') is not None:
        fc.sys_drops.append((plan['mute'], 'system'))
        sim.probe('node_mute_after_handshake')
    if plan.get('down'):
        nd = fc.nodes[plan['down']['node']]
        nd.up = False
        nd.mode = plan['down']['how']
    st = {}
    if plan.get('line_p') or plan.get('points'):
        C = w.cconn.Connection
        sim.enable_line_preemption([C.process_msg, C.defunct, C.factory, w.ccl.ControlConnection._try_connect],
                                   p=plan.get('line_p', 0), points=plan.get('points', 0), est_lines=400)

    def main():
        kw = {}
        if plan['allow_beta']:
            kw['allow_beta_protocol_version'] = True
        try:
            cluster = w.make_cluster(contact=tuple(plan['contact']), protocol_version=plan['explicit'], connect_timeout=2,
                                     idle_heartbeat_interval=0, **kw)
            st['cluster'] = cluster
            session = cluster.connect()
            w.session = session
            st['outcome'] = ('ok', cluster.protocol_version)
        except Exception as e:
            st['outcome'] = ('err', type(e).__name__, str(e)[:300])
        try:
            if st.get('cluster') is not None:
                st['cluster'].shutdown()
        except Exception:
            pass

    w.spawn(main, 'main')
    try:
        status = w.run_until_users_done()
    except StepCap:
        status = 'stepcap'           # connect() is still going after 200 k scheduler steps: judged by C41/terminates below
    V = Violations()
    frames = sorted([f for f in fc.first_frames if f[4] == 5], key=lambda f: f[0])    # OPTIONS = opcode 5
    versions = [f[3] for f in frames]
    rejected = [e for e in sim.log if e[3] == 'node.reject-version']
    if any(nd.get('beta_versions') for nd in plan['cluster']['nodes']):
        sim.probe('beta_offered')
    V.check('C41/terminates')
    if st.get('outcome') is None:
        V.add('C41/terminates', 'connect-did-not-terminate', 'connect() neither returned nor raised by the horizon; versions tried so far: %r' % versions[:30])
        return {'violations': V.items, 'rules_checked': V.checked, 'nontrivial': True, 'summary': {'status': status}}
    ok = st['outcome'][0] == 'ok'
    sim.probe('connect_succeeded' if ok else 'connect_failed')
    # only the negotiation phase: frames up to (and including) the first connection that became the control connection
    explicit = plan['explicit']
    if explicit is not None:
        sim.probe('explicit_version')
        V.check('C41/explicit')
        other = [v for v in versions if v != explicit]
        if other:
            V.add('C41/explicit', 'other-version-sent', 'explicit protocol_version=%s but versions %r were sent' % (explicit, sorted(set(other))))
        supported_somewhere = any(explicit in nd['versions'] or (explicit in nd.get('beta_versions', []) and plan['allow_beta'])
                                  for i, nd in enumerate(plan['cluster']['nodes'])
                                  if not (plan.get('down') and plan['down']['node'] == i))
        if ok and not supported_somewhere:
            V.add('C41/explicit', 'unsupported-explicit-version-accepted', 'explicit version %s is supported by no reachable node, yet connect() succeeded' % explicit)
    else:
        V.check('C41/descending')
        for a, b in zip(versions, versions[1:]):
            if ORDER.index(b) < ORDER.index(a):
                V.add('C41/descending', 'stepped-up', 'versions sent in order %r: %s after %s' % (versions[:20], b, a))
                break
            if a != b and a in NONBETA and b in NONBETA and NONBETA.index(b) != NONBETA.index(a) + 1:
                V.add('C41/descending', 'skipped-a-version', 'versions sent in order %r: went from %s to %s' % (versions[:20], a, b))
                break
        if len(set(versions)) > 1 and len(plan['cluster']['nodes']) > 1:
            sim.probe('multi_host_downgrade')
    for f in frames:
        if explicit is None and f[3] == 6 and not (plan['allow_beta'] and f[5]):
            V.add('C41/descending', 'beta-version-sent', 'version 6 (beta) was sent%s' % ('' if plan['allow_beta'] else ' although allow_beta_protocol_version is off'))
            break
    # after the lowest version (1) was rejected by a host nothing further goes to that host
    # (only while the version is being negotiated: once some node has accepted a version the cluster speaks it, and a host that cannot -
    # a mixed-version cluster - is legitimately tried again by pool creation and by its reconnector)
    accepted_at = [f[0] for f in frames if f[3] in fc.nodes[f[1]].versions or (f[3] in fc.nodes[f[1]].beta_versions and f[5])]
    negotiated = min(accepted_at) if accepted_at else 10 ** 12
    for i, nd in enumerate(fc.nodes):
        mine = [f for f in frames if f[1] == i and f[0] <= negotiated]
        for k, f in enumerate(mine):
            if f[3] == 1 and 1 not in nd.versions and k + 1 < len(mine) and explicit is None:
                V.add('C41/terminates', 'attempt-after-lowest-rejected', 'node %d rejected version 1 and was tried again with %r' % (i, [x[3] for x in mine[k + 1:]][:5]))
                break
    if not ok and explicit is None and plan.get('mute') is None:
        # (a node that settled on a low version and then went mute pins that version for the hosts tried after it: "never steps up"
        # then legitimately ends in giving up)
        # implicit version: a reachable node that speaks a version the driver supports must end up being used
        V.check('C41/downgrades')
        reachable = [i for i, nd in enumerate(plan['cluster']['nodes']) if not (plan.get('down') and plan['down']['node'] == i)]
        # whichever node is tried first, stepping down from the top reaches a version >= 3 it supports
        # (also for nodes that only speak 1 or 2: they frame their rejection of 3+ with an 8-byte v1/v2 header)
        usable = reachable if reachable and all(set(plan['cluster']['nodes'][i]['versions']) & set([1, 2, 3, 4, 5]) for i in reachable) else []
        if usable and not any(set(plan['cluster']['nodes'][i]['versions']) & set([3, 4, 5]) for i in usable):
            sim.probe('only_v1_v2_nodes')
        if usable:
            V.add('C41/downgrades', 'gave-up-although-lower-version-supported',
                  'connect() failed with %s although node(s) %r support %r; versions tried: %r'
                  % (st['outcome'][1], usable, [plan['cluster']['nodes'][i]['versions'] for i in usable], versions[:20]))
    if ok:
        V.check('C41/agreed')
        agreed = st['outcome'][1]
        # (the node of the control connection that lasted: the most recently accepted connection that registered for events - a node
        # that went mute after the handshake had one too)
        with_ev = sorted([(nc.accepted_seq, nd.idx) for nd in fc.nodes for nc in nd.conns if nc.events])
        ctrl_nodes = [fc.nodes[with_ev[-1][1]]] if with_ev else []
        if ctrl_nodes and agreed not in ctrl_nodes[-1].versions and not (agreed in ctrl_nodes[-1].beta_versions and plan['allow_beta']):
            V.add('C41/agreed', 'agreed-version-unsupported', 'negotiated version %s but the control node supports %r' % (agreed, sorted(ctrl_nodes[-1].versions)))
    if rejected:
        sim.probe('version_rejected', len(rejected))
    for cr in sim.crashes:
        if not cr[0].startswith('main'):
            V.add('C41/terminates', 'thread-exception', 'thread %s died: %s' % (cr[0], cr[1]))
    return {'violations': V.items, 'rules_checked': V.checked, 'nontrivial': bool(rejected),
            'faults': dict(w.net.fault_counts), 'summary': {'status': status, 'versions': versions[:20], 'outcome': st['outcome'][:2]},
            'stratum': 'explicit' if explicit is not None else 'implicit'}
