"""C22 Token-aware plans put live local replicas first without losing hosts (worlds direct + full, reference ring)."""
from dsim import seams
from dsim.core import HarnessError, Sim, SimThread, SimEvent
from dsim.net import SimNet
from fakecass.ring import PARTITIONERS, RefRing
from props.common import gen_strategy, quiet_logging, Violations, set_knob
from worlds.full import FullWorld

ID = 'C22'
TIERS = {'quick': {'runs': 18000, 'budget_s': 55, 'wall_cap': 120, 'block': 60},
         'thorough': {'runs': 600000, 'budget_s': 840, 'wall_cap': 200, 'block': 60}}
SHRINK_LISTS = ['ops', 'events', 'keys']
COVERAGE_RULE = ('one run = a ring of 3-6 nodes x 1-4 tokens in 1-2 datacenters and 1-3 racks, keyspaces with SimpleStrategy (rf 1..n+1) '
                 'and NetworkTopologyStrategy (rf per dc 1-3, also larger than the dc), TokenAwarePolicy(child, shuffle) over a recording '
                 'child (RoundRobin, DCAware n=0-2, HostFilter), up to 10 routing keys. World "direct": real Metadata/TokenMap built from '
                 'the generated ring, host state changed in the order the Cluster changes it (set_down, then policy.on_down; policy.on_up, '
                 'then set_up; policy.on_add, then set_up) with plans taken between any two steps and by a concurrent planner thread. '
                 'World "full": the real Cluster learns ring and keyspaces from fake nodes, nodes crash/restart, a token-aware profile is '
                 'added at run time, a planner thread takes plans with line pre-emption and time jumps. Replicas come from an '
                 'independent Murmur3 + placement reference; distinct = event-log digest; non-trivial = a plan had a local replica '
                 'prefix and a host was not up')
RULES = {
    'C22/prefix': 'the plan starts with exactly the reference replicas that are up and LOCAL for the child, in placement order (any order when shuffled)',
    'C22/rest': 'then the child\'s own plan for that call, minus those already yielded, in the child\'s order',
    'C22/no-repeat': 'no host appears twice',
    'C22/no-loss': 'every host of the child\'s plan for that call appears',
    'C22/passthrough': 'without routing key or keyspace the plan is the child\'s plan',
}
WORLD_INFO = {'real': ['TokenAwarePolicy.make_query_plan, Metadata.get_replicas, TokenMap/ReplicationStrategy.make_token_replica_map, '
                       'Murmur3Token.from_key, child policies', 'world full: Cluster/ControlConnection building the token map from peers rows, '
                       'on_up/on_down/on_add ordering of is_up versus policy callbacks'],
              'stub': ['world full: libev C binding, sockets/TCP, ThreadPoolExecutor, fake nodes', 'world direct: the Cluster is replaced by the '
                       'generated step sequence (real Host, Metadata, TokenMap)']}
ASSUMPTIONS = ['ring membership is static during a run (C42 covers token-map refresh); only host state changes',
               'with several LOCAL datacenters under NetworkTopologyStrategy the order is checked per datacenter']
REQUIRED_PROBES = ['local_replica_prefix', 'replica_down_but_in_child_plan', 'remote_replica', 'shuffled_plan', 'nts_keyspace', 'rf_exceeds_nodes',
                   'plan_between_state_steps', 'keyspace_without_replica_map', 'legacy_partitioner', 'late_keyspace_plan_defined', 'late_keyspace_plan_undefined']

LOCAL, REMOTE, IGNORED = 0, 1, -1


def prepare():
    seams.install_static()
    quiet_logging()


def addr_of(i):
    return '10.0.0.%d' % (i + 1)


def gen_plan(rng, tier):
    world = 'full' if rng.random() < 0.25 else 'direct'
    n = rng.choice([3, 4, 5, 6])
    ndc = rng.choice([1, 1, 2, 2])
    dcs = ['dc%d' % (i + 1) for i in range(ndc)]
    nrack = rng.choice([1, 2, 3])
    ntok = rng.choice([1, 1, 2, 4])
    toks = set()
    nodes = []
    part = rng.choice(['murmur3'] * 7 + ['random'] * 2 + ['bytes'])
    for i in range(n):
        mine = []
        while len(mine) < ntok:
            if part == 'murmur3':
                t = rng.choice([rng.randrange(-(1 << 63), 1 << 63), rng.randrange(-1000, 1000)])
            elif part == 'random':
                t = rng.choice([rng.randrange(0, 1 << 127), rng.randrange(0, 1 << 127), rng.randrange(0, 1000)])
            else:
                t = bytes(rng.randrange(256) for _ in range(rng.choice([1, 2, 4]))).hex()
            if t not in toks:
                toks.add(t)
                mine.append(t)
        nodes.append({'dc': dcs[0] if i == 0 else rng.choice(dcs), 'rack': 'r%d' % (rng.randrange(nrack) + 1), 'release': '3.11.4',
                      'versions': [3, 4], 'tokens': [str(t) for t in mine]})
    keyspaces = {'ks_s': {'class': 'org.apache.cassandra.locator.SimpleStrategy', 'replication_factor': str(rng.randrange(1, n + 2))}}
    nts = {'class': 'org.apache.cassandra.locator.NetworkTopologyStrategy'}
    for dc in dcs:
        if rng.random() < 0.85:
            nts[dc] = str(rng.choice([1, 2, 3, 3]))
    if len(nts) == 1:
        nts[dcs[0]] = '2'
    keyspaces['ks_n'] = nts
    # keyspaces whose replica map is empty: plans must fall back to the child's plan
    keyspaces['ks_l'] = {'class': 'org.apache.cassandra.locator.LocalStrategy'}
    keyspaces['ks_u'] = {'class': 'com.example.CustomReplicationStrategy', 'replication_factor': '2'}
    k = rng.random()
    if k < 0.3:
        child = {'kind': 'rr'}
    elif k < 0.85:
        child = {'kind': 'dc', 'local': rng.choice([dcs[0], dcs[0], dcs[-1]]) if world == 'direct' else dcs[0], 'n': rng.choice([0, 1, 2])}
    else:
        child = {'kind': 'hf', 'excluded': sorted(rng.sample(range(1, n), rng.randrange(0, 2)))}
    keys = []
    for _ in range(rng.randrange(2, 11)):
        ln = rng.choice([0, 1, 4, 8, 15, 16, 17, 33])
        keys.append(bytes(rng.randrange(256) for _ in range(ln)).hex())
    ops = []
    events = []
    if world == 'direct':
        state = dict((i, 'up') for i in range(n))
        for _ in range(rng.choice([2, 5, 10, 20, 35])):
            r = rng.random()
            if r < 0.45:
                ops.append({'op': 'plan', 'key': rng.randrange(len(keys)), 'ks': rng.choice(['ks_s', 'ks_n', 'ks_n', 'ks_s', 'ks_s', 'ks_n', None, 'nope', 'ks_l', 'ks_u']),
                            'via': rng.choice(['statement', 'working'])})
                continue
            i = rng.randrange(n)
            mid = [{'op': 'plan', 'key': rng.randrange(len(keys)), 'ks': rng.choice(['ks_s', 'ks_n']), 'via': 'statement', 'mid': True}] \
                if rng.random() < 0.6 else []
            if state[i] == 'up':
                ops += [{'op': 'set_down', 'node': i}] + mid + [{'op': 'policy_down', 'node': i}]
                state[i] = 'down'
            elif rng.random() < 0.3:
                # removed and re-added: is_up is None between policy.on_add and set_up
                ops += [{'op': 'policy_remove', 'node': i}, {'op': 'set_unknown', 'node': i}, {'op': 'policy_add', 'node': i}] + mid + \
                    [{'op': 'set_up', 'node': i}]
                state[i] = 'up'
            else:
                ops += [{'op': 'policy_up', 'node': i}] + mid + [{'op': 'set_up', 'node': i}]
                state[i] = 'up'
        if rng.random() < 0.4:
            # a keyspace whose definition reaches the metadata only later (created by another client), is altered and dropped:
            # plans taken before, between and after must follow the metadata of the moment
            late = {'class': 'org.apache.cassandra.locator.SimpleStrategy', 'replication_factor': str(rng.randrange(1, n + 1))}
            alt = {'class': 'org.apache.cassandra.locator.SimpleStrategy', 'replication_factor': str(rng.randrange(1, n + 1))}
            seq = [{'op': 'plan', 'key': rng.randrange(len(keys)), 'ks': 'ks_late', 'via': 'statement'},
                   {'op': 'ks_define', 'ks': 'ks_late', 'repl': late},
                   {'op': 'plan', 'key': rng.randrange(len(keys)), 'ks': 'ks_late', 'via': rng.choice(['statement', 'working'])},
                   {'op': 'plan', 'key': rng.randrange(len(keys)), 'ks': 'ks_late', 'via': 'statement'}]
            if rng.random() < 0.6:
                seq += [{'op': 'ks_define', 'ks': 'ks_late', 'repl': alt},
                        {'op': 'plan', 'key': rng.randrange(len(keys)), 'ks': 'ks_late', 'via': 'statement'}]
            if rng.random() < 0.4:
                seq += [{'op': 'ks_drop', 'ks': 'ks_late'}, {'op': 'plan', 'key': rng.randrange(len(keys)), 'ks': 'ks_late', 'via': 'statement'},
                        {'op': 'ks_define', 'ks': 'ks_late', 'repl': late},
                        {'op': 'plan', 'key': rng.randrange(len(keys)), 'ks': 'ks_late', 'via': 'statement'}]
            # spread the sequence over the other operations, order kept
            pos = sorted(rng.randrange(len(ops) + 1) for _ in seq)
            for off, (at, item) in enumerate(zip(pos, seq)):
                ops.insert(at + off, item)
    else:
        t = 0.3
        for _ in range(rng.choice([1, 2, 4, 6])):
            t += rng.choice([0.1, 0.5, 1.5])
            events.append({'at': round(t, 3), 'kind': rng.choice(['crash', 'crash', 'restart', 'add_profile']), 'node': rng.randrange(1, n),
                           'how': rng.choice(['rst', 'rst', 'blackhole']), 'announce': rng.choice([None, 0.01, 0.2])})
    return {'world': world, 'cluster': {'nodes': nodes, 'keyspaces': keyspaces, 'partitioner': PARTITIONERS[part][0]}, 'partitioner': part, 'dcs': dcs, 'child': child, 'shuffle': rng.random() < 0.3,
            'keys': keys, 'ops': ops, 'events': events, 'planner': rng.random() < 0.5, 'executor_threads': rng.choice([1, 2, 4]),
            'strategy': gen_strategy(rng), 'time_jump_p': rng.choice([0, 0.1, 0.3]) if world == 'full' else 0,
            'line_p': rng.choice([0, 0.01, 0.05]), 'points': rng.choice([0, 2, 6])}


# ------------------------------------------------------------------------------------------------ policy under test
def build_child(spec, cpol, plans):
    def rec(cls):
        class RecChild(cls):
            def make_query_plan(self, working_keyspace=None, query=None):
                got = []
                plans.append(got)
                for h in cls.make_query_plan(self, working_keyspace, query):
                    got.append(str(h.endpoint.address))
                    yield h
        RecChild.__name__ = 'Rec' + cls.__name__
        return RecChild
    if spec['kind'] == 'rr':
        return rec(cpol.RoundRobinPolicy)()
    if spec['kind'] == 'dc':
        return rec(cpol.DCAwareRoundRobinPolicy)(local_dc=spec['local'], used_hosts_per_remote_dc=spec['n'])
    excl = set(addr_of(i) for i in spec['excluded'])
    return rec(cpol.HostFilterPolicy)(cpol.RoundRobinPolicy(), lambda h: str(h.endpoint.address) not in excl)


class Stmt(object):
    """The two attributes TokenAwarePolicy reads."""

    def __init__(self, routing_key, keyspace):
        self.routing_key = routing_key
        self.keyspace = keyspace


class Taker(object):
    """Takes token-aware plans and judges them against the reference ring."""

    def __init__(self, plan, sim, ref, hosts_fn, V):
        self.plan = plan
        self.sim = sim
        self.ref = ref
        self.hosts_fn = hosts_fn
        self.V = V
        self.nplans = 0
        self.nontrivial = False
        self.ver = [0]             # bumped by every host-state or policy-membership change (ABA-safe "nothing moved" test)
        self.ks_now = dict(plan['cluster']['keyspaces'])      # keyspace definitions the metadata holds at this moment

    def watch(self, cpool, cpol):
        ver = self.ver
        for cls, names in ((cpool.Host, ('set_up', 'set_down')),
                           (cpol.TokenAwarePolicy, ('on_up', 'on_down', 'on_add', 'on_remove'))):
            for name in names:
                orig = getattr(cls, name)

                def wrapper(self_, *a, _orig=orig, **k):
                    ver[0] += 1
                    try:
                        return _orig(self_, *a, **k)
                    finally:
                        ver[0] += 1
                set_knob(cls, name, wrapper)

    def take(self, ta, child, child_plans, op, where):
        sim, V, plan = self.sim, self.V, self.plan
        key = bytes.fromhex(plan['keys'][op['key']])
        ks = op['ks']
        hosts = self.hosts_fn()
        before = dict((str(h.endpoint.address), h.is_up) for h in hosts)
        v0 = self.ver[0]
        n0 = len(child_plans)
        if op.get('via') == 'working':
            stmt, working = Stmt(key, None), ks
        else:
            stmt, working = Stmt(key, ks), 'ks_other'
        try:
            P = [str(h.endpoint.address) for h in ta.make_query_plan(working, stmt)]
        except Exception as e:
            V.check('C22/no-loss')
            V.add('C22/no-loss', 'plan-raised:%s' % type(e).__name__, 'make_query_plan raised %r for key %r keyspace %r' % (e, key, ks))
            return
        dist = dict((str(h.endpoint.address), child.distance(h)) for h in hosts)
        after = dict((str(h.endpoint.address), h.is_up) for h in hosts)
        mine = child_plans[n0:]
        self.nplans += 1
        V.check('C22/no-repeat')
        if len(set(P)) != len(P):
            V.add('C22/no-repeat', 'host-repeated', 'plan %r for key %r keyspace %r (%s)' % (P, key, ks, where))
            return
        if before != after or len(mine) != 1 or self.ver[0] != v0 or v0 % 2:
            return                     # host state moved while the plan was being built (or another thread's call interleaved): not judged further
        C = mine[0]
        up = before
        repl = self.ks_now.get(ks) if ks else None
        if ks == 'ks_late':
            sim.probe('late_keyspace_plan_' + ('defined' if repl else 'undefined'))
        if repl is None:
            V.check('C22/passthrough')
            if P != C:
                V.add('C22/passthrough', 'not-the-child-plan', 'keyspace %r: plan %r, child plan %r' % (ks, P, C))
            return
        R = self.ref.replicas(repl, PARTITIONERS[plan.get('partitioner', 'murmur3')][1](key))
        if plan.get('partitioner', 'murmur3') != 'murmur3':
            sim.probe('legacy_partitioner')
        if not R:
            sim.probe('keyspace_without_replica_map')
        if 'NetworkTopology' in repl['class']:
            sim.probe('nts_keyspace')
        E = [a for a in R if up.get(a) and dist.get(a) == LOCAL]
        if any(dist.get(a) == REMOTE for a in R):
            sim.probe('remote_replica')
        desc = 'key %s keyspace %s replication %r: reference replicas %r, up %r, distances %r, child plan %r, plan %r (%s)' % (
            key.hex(), ks, dict((k_, v_) for k_, v_ in repl.items() if k_ != 'class'), R, sorted(a for a in up if up[a]),
            dict((a, dist[a]) for a in R if a in dist), C, P, where)
        V.check('C22/prefix')
        head = P[:len(E)]
        multi_local_dcs = 'NetworkTopology' in repl['class'] and len(set(self.ref.nodes[a]['dc'] for a in E)) > 1
        if set(head) != set(E):
            V.add('C22/prefix', 'wrong-replica-prefix', desc)
            return
        if not plan['shuffle']:
            if multi_local_dcs:
                for dc in set(self.ref.nodes[a]['dc'] for a in E):
                    if [a for a in head if self.ref.nodes[a]['dc'] == dc] != [a for a in E if self.ref.nodes[a]['dc'] == dc]:
                        V.add('C22/prefix', 'replica-order', desc)
                        return
            elif head != E:
                V.add('C22/prefix', 'replica-order', desc)
                return
        else:
            sim.probe('shuffled_plan')
        if E:
            sim.probe('local_replica_prefix')
            if any(not v for v in up.values()):
                self.nontrivial = True
        V.check('C22/rest')
        V.check('C22/no-loss')
        want_rest = [a for a in C if a not in E]
        rest = P[len(E):]
        missing = [a for a in C if a not in P]
        if any(a in R and not up.get(a) for a in C):
            sim.probe('replica_down_but_in_child_plan')
        if op.get('mid'):
            sim.probe('plan_between_state_steps')
        if missing:
            m = missing[0]
            why = 'replica-not-up' if (m in R and not up.get(m)) else 'other'
            V.add('C22/no-loss', 'child-host-left-out:%s' % why, 'host %s (is_up %r, distance %r) is in the child\'s plan but not in the token-aware plan; %s'
                  % (m, up.get(m), dist.get(m), desc))
            return
        if rest != want_rest:
            V.add('C22/rest', 'rest-differs-from-child-order', desc)


def line_funcs(M):
    P, ccl = M['cpol'], M['ccl']
    return [P.TokenAwarePolicy.make_query_plan, P.DCAwareRoundRobinPolicy.make_query_plan, P.RoundRobinPolicy.make_query_plan,
            ccl.Cluster.on_down, ccl.Cluster.on_up, ccl.Cluster.on_add, ccl.Cluster._on_up_future_completed]


def ref_ring(plan):
    parse = PARTITIONERS[plan.get('partitioner', 'murmur3')][2]
    return RefRing([{'addr': addr_of(i), 'dc': n['dc'], 'rack': n['rack'], 'tokens': [parse(t) for t in n['tokens']]}
                    for i, n in enumerate(plan['cluster']['nodes'])])


# ------------------------------------------------------------------------------------------------ world direct
class _ClusterStub(object):
    def __init__(self, metadata, endpoints):
        self.metadata = metadata
        self.endpoints_resolved = endpoints


def run_direct(plan, seed, choices):
    sim = Sim(seed, strategy=plan.get('strategy'), step_cap=3000000, horizon=400.0, choices=choices)
    net = SimNet(sim)
    M = seams.install_run(sim, net)
    cpol, cpool, cconn, cmeta, ccl = M['cpol'], M['cpool'], M['cconn'], M['cmeta'], M['ccl']
    sleep = ccl.time.sleep
    nodes = plan['cluster']['nodes']
    n = len(nodes)
    V = Violations()
    md = cmeta.Metadata()
    hosts = []
    for i, ns in enumerate(nodes):
        h = cpool.Host(cconn.DefaultEndPoint(addr_of(i), 9042), cpol.SimpleConvictionPolicy, datacenter=ns['dc'], rack=ns['rack'])
        h.set_up()
        h.broadcast_rpc_address = addr_of(i)
        md.add_or_return_host(h)
        hosts.append(h)
    for name, repl in plan['cluster']['keyspaces'].items():
        md.keyspaces[name] = cmeta.KeyspaceMetadata(name, True, repl['class'], dict((k, v) for k, v in repl.items() if k != 'class'))
    md.rebuild_token_map(PARTITIONERS[plan.get('partitioner', 'murmur3')][0], dict((hosts[i], nodes[i]['tokens']) for i in range(n)))
    ref = ref_ring(plan)
    for name, repl in plan['cluster']['keyspaces'].items():
        if 'Simple' in repl['class'] and int(repl['replication_factor']) > n:
            sim.probe('rf_exceeds_nodes')
        if 'Network' in repl['class'] and any(int(v) > sum(1 for x in nodes if x['dc'] == k) for k, v in repl.items() if k != 'class'):
            sim.probe('rf_exceeds_nodes')
    child_plans = []
    child = build_child(plan['child'], cpol, child_plans)
    ta = cpol.TokenAwarePolicy(child, shuffle_replicas=plan['shuffle'])
    ta.populate(_ClusterStub(md, [hosts[0].endpoint]), list(hosts))
    taker = Taker(plan, sim, ref, lambda: hosts, V)
    taker.watch(cpool, cpol)
    stop = [False]
    gate = SimEvent()

    def driver():
        for oi, op in enumerate(plan['ops']):
            k = op['op']
            if k == 'plan':
                taker.take(ta, child, child_plans, op, 'op%d' % oi)
                continue
            if k == 'ks_define':
                # the path a schema refresh takes: Metadata._update_keyspace -> _keyspace_added/_keyspace_updated -> TokenMap.rebuild_keyspace
                taker.ver[0] += 1
                repl = op['repl']
                md._update_keyspace(cmeta.KeyspaceMetadata(op['ks'], True, repl['class'], dict((a, b) for a, b in repl.items() if a != 'class')))
                taker.ks_now[op['ks']] = repl
                taker.ver[0] += 1
                continue
            if k == 'ks_drop':
                taker.ver[0] += 1
                md._drop_keyspace(op['ks'])
                taker.ks_now.pop(op['ks'], None)
                taker.ver[0] += 1
                continue
            gate.set()
            h = hosts[op['node']]
            if k == 'set_down':
                h.set_down()
            elif k == 'set_up':
                h.set_up()
            elif k == 'set_unknown':
                taker.ver[0] += 2
                h.is_up = None
            elif k == 'policy_down':
                ta.on_down(h)
            elif k == 'policy_up':
                ta.on_up(h)
            elif k == 'policy_remove':
                ta.on_remove(h)
            elif k == 'policy_add':
                ta.on_add(h)
        stop[0] = True
        gate.set()

    def planner():
        j = 0
        while not stop[0]:
            gate.wait(5.0)
            gate.clear()
            for _ in range(2):
                if stop[0]:
                    break
                j += 1
                taker.take(ta, child, child_plans, {'key': j % len(plan['keys']), 'ks': ['ks_s', 'ks_n'][j % 2], 'via': 'statement'}, 'planner')

    if plan.get('line_p') or plan.get('points'):
        sim.enable_line_preemption(line_funcs(M)[:3], p=plan.get('line_p', 0), points=plan.get('points', 0), est_lines=3000)
    threads = [SimThread(target=driver, name='driver')]
    if plan.get('planner'):
        threads.append(SimThread(target=planner, name='planner'))
    for t in threads:
        t.start()
    status = sim.run(until=lambda: all(t.state == 'done' for t in threads))
    for cr in sim.crashes:
        V.add('C22/no-loss', 'thread-exception', 'thread %s died: %s' % (cr[0], cr[1]))
    return {'violations': V.items, 'rules_checked': V.checked, 'nontrivial': taker.nontrivial, 'faults': {},
            'summary': {'status': status, 'plans': taker.nplans}, 'stratum': 'direct'}


# ------------------------------------------------------------------------------------------------ world full
def run_full(plan, seed, choices):
    t_last = max([e['at'] for e in plan['events']] + [0.5])
    w = FullWorld(plan, seed, choices, horizon=t_last + 60.0, step_cap=6000000)
    sim, fc, cpol, ccl = w.sim, w.fc, w.cpol, w.ccl
    sim.spin_limit = 1500
    V = Violations()
    st = {}
    ref = ref_ring(plan)
    nodes = plan['cluster']['nodes']
    for name, repl in plan['cluster']['keyspaces'].items():
        if ('Simple' in repl['class'] and int(repl['replication_factor']) > len(nodes)) or \
                ('Network' in repl['class'] and any(int(v) > sum(1 for x in nodes if x['dc'] == k) for k, v in repl.items() if k != 'class')):
            sim.probe('rf_exceeds_nodes')
    puts = []          # (ta, child, child_plans)
    stop = [False]
    taker = Taker(plan, sim, ref, lambda: sorted(w.cluster.metadata.all_hosts(), key=lambda h: str(h.endpoint.address)), V)
    taker.watch(w.cpool, cpol)

    def new_put():
        child_plans = []
        child = build_child(plan['child'], cpol, child_plans)
        ta = cpol.TokenAwarePolicy(child, shuffle_replicas=plan['shuffle'])
        puts.append((ta, child, child_plans))
        return ta

    def apply(ev):
        i, k = ev['node'], ev['kind']
        node = fc.nodes[i]
        if k == 'crash' and node.up:
            fc.crash(i, how=ev['how'], announce=ev['announce'])
        elif k == 'restart' and not node.up:
            fc.restart(i, announce=ev['announce'] if ev['announce'] is not None else 0.05)

    def take_some(where, count):
        for j in range(count):
            for (ta, child, child_plans) in list(puts):
                st['j'] = st.get('j', 0) + 1
                taker.take(ta, child, child_plans, {'key': st['j'] % len(plan['keys']), 'ks': ['ks_s', 'ks_n', 'ks_n', None, 'ks_s', 'ks_l', 'ks_n', 'ks_u'][st['j'] % 8],
                                                    'via': 'statement' if st['j'] % 3 else 'working'}, where)

    def main():
        ta = new_put()
        try:
            cluster = w.make_cluster(protocol_version=4, idle_heartbeat_interval=2.0, idle_heartbeat_timeout=1.0,
                                     execution_profiles={ccl.EXEC_PROFILE_DEFAULT: ccl.ExecutionProfile(load_balancing_policy=ta, request_timeout=2.0)},
                                     executor_threads=plan['executor_threads'], connect_timeout=1,
                                     status_event_refresh_window=0.2, topology_event_refresh_window=0.2,
                                     reconnection_policy=cpol.ConstantReconnectionPolicy(0.5, max_attempts=None))
            w.session = cluster.connect()
        except Exception as e:
            st['connect_error'] = repr(e)
            return
        w.sleep(0.15)
        if cluster.metadata.token_map is None:
            st['connect_error'] = 'no token map'
            return
        take_some('init', 3)
        st['t0'] = sim.now
        for ev in plan['events']:
            if ev['kind'] != 'add_profile':
                sim.at(ev['at'], (lambda ev=ev: apply(ev)), 'plan %s n%d' % (ev['kind'], ev['node']))
        t_prev = 0.0
        for ei, ev in enumerate(plan['events']):
            w.sleep(max(0.0, ev['at'] - t_prev) + 0.001)
            t_prev = ev['at']
            if ev['kind'] == 'add_profile':
                try:
                    cluster.add_execution_profile('q%d' % ei, ccl.ExecutionProfile(load_balancing_policy=new_put(), request_timeout=2.0),
                                                  pool_wait_timeout=0.5)
                except Exception as e:
                    st.setdefault('add_profile_errors', []).append(repr(e))
            take_some('ev%d' % ei, 2)
        w.sleep(2.0)
        take_some('late', 3)
        for i, node in enumerate(fc.nodes):
            if not node.up:
                fc.restart(i, announce=0.05)
        w.sleep(5.0)
        take_some('end', 3)
        stop[0] = True

    def planner():
        w.sleep(0.4)
        for ev in plan['events']:
            d = ev['at'] - (sim.now - st.get('t0', sim.now))
            if d > 0:
                w.sleep(d)
            for _ in range(30):
                if stop[0]:
                    return
                take_some('planner', 1)
                w.sleep(0.004)

    if plan.get('line_p') or plan.get('points'):
        sim.enable_line_preemption(line_funcs(w.M), p=plan.get('line_p', 0), points=plan.get('points', 0), est_lines=4000)
    w.spawn(main, 'main')
    if plan.get('planner'):
        w.spawn(planner, 'planner')
    status = w.run_until_users_done()
    if st.get('connect_error'):
        raise HarnessError('connect failed: %s' % st['connect_error'])
    for cr in sim.crashes:
        if not cr[0].startswith(('main', 'planner')):
            V.add('C22/no-loss', 'thread-exception', 'thread %s died: %s' % (cr[0], cr[1]))
    if status != 'done':
        raise HarnessError('run did not finish: %s' % status)
    return {'violations': V.items, 'rules_checked': V.checked, 'nontrivial': taker.nontrivial,
            'faults': dict(w.net.fault_counts), 'states': [w.abstract_state()],
            'summary': {'status': status, 'plans': taker.nplans, 'add_profile_errors': st.get('add_profile_errors')}, 'stratum': 'full'}


def run_plan(plan, seed, choices=None):
    if plan['world'] == 'direct':
        return run_direct(plan, seed, choices)
    return run_full(plan, seed, choices)
