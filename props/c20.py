"""C20 Switching the session keyspace is applied everywhere or reported (W-FULL)."""
from dsim import seams
from dsim.core import HarnessError
from props.common import gen_stalls, gen_strategy, quiet_logging, Violations, line_offset
from dsim.core import Deadlock
from worlds.reqpath import make_legacy, ReqPathRun, base_plan, RETRY_NEXT_HOST
from worlds.full import ReqObs

ID = 'C20'
TIERS = {'quick': {'runs': 12000, 'budget_s': 55, 'wall_cap': 120, 'block': 60},
         'thorough': {'runs': 400000, 'budget_s': 840, 'wall_cap': 120, 'block': 60}}
SHRINK_LISTS = ['requests', 'switches']
COVERAGE_RULE = ('one run = real Session over 2-4 fake nodes (protocol 3/4); 1-2 keyspace switches (USE statement with '
                 'timeout=None or set_keyspace) while: a node rejects USE on its pooled connection (InvalidRequest / server '
                 'error), a pool has no connection (REMOTE host with connect_to_remote_hosts=False), a pooled connection was '
                 'just reset, completion order permuted by per-node latencies; then ordinary requests to every node; '
                 'distinct = event-log digest; non-trivial = at least one pool was not in the plain healthy state during a switch')
RULES = {
    'C20/applied': 'after a switch reported success, every later request arrives on a connection whose selected keyspace (as the node '
                   'sees it) is the new keyspace',
    'C20/reported': 'if selecting the keyspace failed on any pool, the switch raises',
    'C20/completes': 'the switch returns or raises (a lost completion callback is a hang when timeout=None)',
}
WORLD_INFO = {'real': ['Session._set_keyspace_for_all_pools, ResponseFuture._set_keyspace_completed, Session.set_keyspace',
                       'HostConnection._set_keyspace_for_all_conns/_replace/_keyspace', 'Connection.set_keyspace_async/blocking'],
              'stub': ['libev C binding', 'sockets/TCP', 'ThreadPoolExecutor', 'fake nodes tracking the keyspace selected per connection']}
ASSUMPTIONS = ['the node that coordinates the USE statement itself (first host of the default plan) never rejects it']
REQUIRED_PROBES = ['pool_rejects_use', 'pool_without_connection', 'switch_raised', 'switch_succeeded', 'request_after_switch',
                   'switch_retried_same_keyspace', 'orphan_threshold_reached']


def prepare():
    seams.install_static()
    quiet_logging()


def gen_plan(rng, tier):
    p = base_plan(rng, nodes=rng.choice([2, 3, 4]), version=rng.choice([3, 4]))
    n = len(p['cluster']['nodes'])
    p['cluster']['keyspaces'] = dict(('ks%d' % k, {'class': 'org.apache.cassandra.locator.SimpleStrategy', 'replication_factor': '1'})
                                     for k in range(1, 4))
    p['exec'] = {'spec': None, 'executor_threads': rng.choice([1, 2]), 'default_timeout': 4.0}
    remote = [i for i in range(1, n) if rng.random() < 0.2]
    p['remote_nodes'] = remote
    p['switches'] = []
    for s in range(rng.choice([1, 1, 2])):
        rejecting = dict((str(i), rng.choice(['invalid', 'server_error'])) for i in range(1, n) if rng.random() < 0.3 and i not in remote)
        p['switches'].append({'ks': 'ks%d' % (s + 2), 'how': rng.choice(['use_none', 'use_none', 'set_keyspace']),
                              'reject': rejecting, 'rst_before': rng.choice([None, None, rng.randrange(1, n)]),
                              'rst_lead': rng.choice([0.0005, 0.003, 0.02]),
                              'slow': dict((str(i), rng.choice([1, 1, 5, 20])) for i in range(n)),
                              'retry_same': rng.random() < 0.5,
                              'orphan_node': (rng.randrange(0, n) if rng.random() < 0.35 else None),
                              'trigger_delay': rng.choice([0.0, 0.0005, 0.002, 0.006])})
    for i in range(rng.choice([n, 2 * n])):
        first = i % n
        order = [first] + [x for x in range(n) if x != first]
        p['requests'].append({'plan': order, 'idempotent': True, 'decisions': [[RETRY_NEXT_HOST, None]] * 2})
    p['knobs'] = {'orphaned_threshold': 2, 'max_in_flight': 64}
    p.update(strategy=gen_strategy(rng), line_p=rng.choice([0, 0, 0.01]), points=rng.choice([0, 2]), time_jump_p=0)
    p.update(gen_stalls(rng, ['_set_keyspace_for_all_pools', '_set_keyspace_for_all_conns', '_replace', 'set_keyspace_async'], 0.25))
    if rng.random() < 0.12:
        # a connection replacement (orphaned-stream threshold reached around the first switch) whose thread is descheduled line by
        # line while the second switch is applied to the connection being replaced
        while len(p['switches']) < 2:
            p['switches'].append(dict(p['switches'][0], ks='ks3', orphan_node=None))
        on = rng.randrange(0, n)
        p['switches'][0].update(orphan_node=on, reject={}, rst_before=None)
        p['switches'][1].update(orphan_node=None, reject={}, rst_before=None, slow=dict((str(i), rng.choice([5, 20]) if i != on else 1) for i in range(n)))
        p['remote_nodes'] = [i for i in p['remote_nodes'] if i != on]
        p['focus_stall'] = ['_replace', rng.choice([0.3, 0.4, 0.6]), rng.choice([0.1, 0.2])]
        p.pop('stall', None)
        return p
    if n >= 2 and rng.random() < 0.08:
        # a pool appears (a silently restarted node is reconnected) while a switch is being handed to the pools, and the loop thread
        # applying the switch is descheduled right after it has taken its snapshot of the pools
        x = rng.randrange(1, n)
        p['remote_nodes'] = []
        p['exec']['reconnect_delay'] = 0.5
        sw = p['switches'][-1]
        sw.update(reject={}, rst_before=None, orphan_node=None, how=rng.choice(['use_none', 'set_keyspace']), slow=dict((str(i), 1) for i in range(n)),
                  late_pool={'node': x, 'lead': rng.choice([-0.1, -0.2, -0.3, 0.05])})
        # (the executor thread opening the pool sits right before it registers the pool; the switch starts while it sits there)
        p['deep_stalls'] = [['run_add_or_renew_pool', line_offset('cassandra.cluster', 'Session.add_or_renew_pool', 'previous = self._pools.get(host)', 22,
                                                                 inner='run_add_or_renew_pool'), 0.5, 4],
                            ['_set_keyspace_for_all_pools', rng.randrange(8, 14), 0.5, 4]]
        p.pop('stall', None)
        p.pop('focus_stall', None)
        return p
    if n >= 2 and rng.random() < 0.1:
        # a pool disappears (its host is convicted after a connection reset under a pending request) while a switch is being handed
        # to the pools: the executor thread handling the failure is descheduled inside Cluster.on_down, the loop thread applying
        # the switch is descheduled between two lines of _set_keyspace_for_all_pools
        x = rng.randrange(1, n)
        p['remote_nodes'] = []
        sw = p['switches'][-1]
        sw.update(reject={}, rst_before=x, rst_inflight=True, rst_lead=rng.choice([0.0005, 0.003, 0.01]), orphan_node=None, how='use_none',
                  slow=dict((str(i), 1) for i in range(n)))
        p['deep_stalls'] = [['on_down', rng.choice([4, 7, 22, 26, 28, 29, 30]), rng.choice([0.02, 0.05, 0.1]), 1],
                            ['_set_keyspace_for_all_pools', rng.randrange(10, 27), rng.choice([0.1, 0.2, 0.5]), 4]]
        p.pop('stall', None)
        p.pop('focus_stall', None)
        return p
    if rng.random() < 0.2:
        # protocol 2: HostConnectionPool, several connections per pool, each of which has to switch
        make_legacy(p, rng)
        p['pool_v2']['core'] = rng.choice([1, 2, 3])
        p['pool_v2']['max'] = p['pool_v2']['core'] + rng.choice([0, 1])
        p['knobs'] = {'max_in_flight': 64}
        p['burst_after'] = True
        p['never_convict'] = rng.random() < 0.5
        for r in p['requests']:
            r['scripts'] = [{'kind': 'ok', 'delay': 0.05}]
        for sw in p['switches']:
            sw['orphan_node'] = None        # orphan-threshold replacement exists for HostConnection only
            if rng.random() < 0.6:
                sw['load'] = {'node': rng.randrange(n), 'n': p['pool_v2']['max_req'] * p['pool_v2']['core'] + rng.choice([1, 3]),
                              'delay': rng.choice([0.1, 0.3]), 'lead': rng.choice([0.0, 0.001, 0.004, 0.01])}
                if rng.random() < 0.3:
                    # ... and the executor thread that opens the additional connection is descheduled after selecting the keyspace on
                    # it and before adding it to the pool, while the switch walks the pool's connections
                    p['deep_stalls'] = [['_add_conn_if_under_max', line_offset('cassandra.pool', 'HostConnectionPool._add_conn_if_under_max',
                                                                             'self._next_trash_allowed_at = time.time()', 18),
                                         rng.choice([0.2, 0.5]), 2]]
                    sw['load']['lead'] = rng.choice([0.03, 0.06, 0.12])      # (the connection is open and on the old keyspace when the switch starts)
                    sw['load']['delay'] = 0.6
                    p.pop('stall', None)
                    p.pop('focus_stall', None)
                elif rng.random() < 0.3:
                    # ... enough of it to take every request id of every connection the pool may have (id space 64)
                    sw['load']['n'] = 64 * p['pool_v2']['max'] + rng.choice([0, 2])
                    sw['load']['delay'] = rng.choice([0.3, 0.6])
    return p


def line_funcs(w):
    return [w.ccl.Session._set_keyspace_for_all_pools, w.cpool.HostConnection._set_keyspace_for_all_conns,
            w.cpool.HostConnection._replace, w.cconn.Connection.set_keyspace_async,
            w.cpool.HostConnectionPool._set_keyspace_for_all_conns, w.cpool.HostConnectionPool.return_connection, w.ccl.Cluster.on_down, w.cpool.HostConnectionPool._add_conn_if_under_max] + \
        [c for c in w.ccl.Session.add_or_renew_pool.__code__.co_consts if getattr(c, 'co_name', None) == 'run_add_or_renew_pool']


def run_plan(plan, seed, choices=None):
    if plan.get('remote_nodes'):
        plan['cluster_attrs'] = {'connect_to_remote_hosts': False}
    run = ReqPathRun(plan, seed, choices, horizon=40.0, line_funcs=line_funcs)
    w, sim = run.w, run.w.sim
    fc = w.fc
    HostDistance = w.cpol.HostDistance
    remote_addrs = set(fc.nodes[i].addr for i in plan.get('remote_nodes', []))
    lbp = run.lbp
    lbp.distance = lambda host: HostDistance.REMOTE if str(host.endpoint.address) in remote_addrs else HostDistance.LOCAL
    switches = []
    retried = {}

    def user(tid):
        session = w.session
        rid = 0
        per = max(1, len(plan['requests']) // max(1, len(plan['switches'])))
        for si, sw in enumerate(plan['switches']):
            for k, kind in sw['reject'].items():
                fc.nodes[int(k)].use_errors[:] = [kind]
            for k, mult in sw['slow'].items():
                w.net.slow[fc.nodes[int(k)].addr] = mult
            on = sw.get('orphan_node')
            if on is not None and on not in plan.get('remote_nodes', []):
                # push that pool's connection to its orphaned-stream threshold, so that the next borrow replaces it
                futs = []
                for j in range(2):
                    rid_o = 900 + si * 10 + j
                    fc.scripts[rid_o] = [{'kind': 'drop'}]
                    try:
                        futs.append(session.execute_async("SELECT * FROM ks1.t /*rid=%d*/" % rid_o, timeout=0.05,
                                                          host=lbp.hosts.get(fc.nodes[on].addr)))
                    except Exception:
                        pass
                for f in futs:
                    try:
                        f.result()
                    except Exception:
                        pass
                sim.probe('orphan_threshold_reached')

                def trigger(on=on, d=sw.get('trigger_delay', 0.0), si=si):
                    w.sleep(d)
                    try:
                        session.execute("SELECT * FROM ks1.t /*rid=%d*/" % (950 + si), timeout=2.0,
                                        host=lbp.hosts.get(fc.nodes[on].addr))
                    except Exception:
                        pass
                w.spawn(trigger, 'trigger')
            lp = sw.get('late_pool')
            if lp:
                # a node went down and came back silently; its reconnection succeeds - and the session opens a new pool to it - just
                # while this switch is being handed to the pools
                fc.crash(lp['node'], how='rst', announce=0.0)
                w.sleep(0.05)
                fc.restart(lp['node'], announce=None)
                w.sleep(max(0.0, plan['exec'].get('reconnect_delay', 1.0) - 0.05 - lp['lead']))
                sim.probe('pool_opened_around_switch')
            if sw['rst_before'] is not None:
                if sw.get('rst_inflight'):
                    # a request is waiting for that node's (slow) answer when its connection is reset: the request fails, the
                    # connection failure is signalled, the host is convicted and its pool removed - on the executor, while the switch runs
                    rid_i = 970 + si
                    fc.scripts[rid_i] = [{'kind': 'ok', 'delay': 2.0}]
                    try:
                        session.execute_async("SELECT * FROM ks1.t /*rid=%d*/" % rid_i, timeout=4.0, host=lbp.hosts.get(fc.nodes[sw['rst_before']].addr))
                    except Exception:
                        pass
                    w.sleep(0.02)
                    sim.probe('connection_reset_under_a_request_before_switch')
                sim.at(0.0, (lambda k=sw['rst_before']: fc.rst_conns(k, 'pool')), 'rst pool conn n%d' % sw['rst_before'])
                w.sleep(sw['rst_lead'])
            if sw.get('load'):
                # protocol 1/2 pools grow under load: requests pile up on one host right before the switch, so that the pool opens
                # another connection while the USE statements are in flight
                ld = sw['load']
                sim.probe('pool_growth_during_switch_attempted')

                def load(ld=ld, si=si):
                    futs = []
                    for j in range(ld['n']):
                        rid_l = 700 + si * 40 + j
                        fc.scripts[rid_l] = [{'kind': 'ok', 'delay': ld['delay']}]
                        try:
                            futs.append(session.execute_async("SELECT * FROM ks1.t /*rid=%d*/" % rid_l, timeout=3.0,
                                                              host=lbp.hosts.get(fc.nodes[ld['node']].addr)))
                        except Exception:
                            pass
                    for f in futs:
                        try:
                            f.result()
                        except Exception:
                            pass
                w.spawn(load, 'load')
                w.sleep(ld['lead'])
            rec = {'ks': sw['ks'], 'start': sim.nlog, 't0': sim.vnow(), 'outcome': None, 'pools': {}, 'conns': set()}
            for addr, pool in w.pools().items():
                cs = list(pool._connections) if hasattr(pool, '_connections') else [c for c in [getattr(pool, '_connection', None)] if c is not None]
                for c in cs:
                    if getattr(c, '_socket', None) is not None:
                        rec['conns'].add(c._socket.label)
                live = [c for c in cs if not (c.is_closed or c.is_defunct)]
                rec['pools'][addr] = 'shutdown' if pool.is_shutdown else ('no-connection' if not cs else ('dead' if not live else (
                    'at-capacity' if any(c.in_flight >= c.max_request_id for c in live) else 'ok')))
            switches.append(rec)
            sim.rec('switch.start', sw['ks'])
            try:
                if sw['how'] == 'set_keyspace':
                    session.set_keyspace(sw['ks'])
                else:
                    session.execute('USE %s' % sw['ks'], timeout=None)
                rec['outcome'] = ('ok',)
            except Exception as e:
                rec['outcome'] = ('err', type(e).__name__, str(e)[:200])
            rec['end'] = sim.nlog
            rec['t1'] = sim.vnow()
            sim.rec('switch.done', '%s %s' % (sw['ks'], rec['outcome'][0]))
            for k in sw['reject']:
                fc.nodes[int(k)].use_errors[:] = []
            if rec['outcome'][0] == 'err' and sw.get('retry_same'):
                # the application retries the same switch once the cause is gone
                w.sleep(0.3)
                rec2 = dict(rec, start=sim.nlog, outcome=None, retry_of=si, reject_cleared=True)
                rec2['pools'] = dict(rec['pools'])
                sim.rec('switch.retry', sw['ks'])
                sim.probe('switch_retried_same_keyspace')
                try:
                    session.execute('USE %s' % sw['ks'], timeout=None)
                    rec2['outcome'] = ('ok',)
                except Exception as e:
                    rec2['outcome'] = ('err', type(e).__name__, str(e)[:200])
                rec2['end'] = sim.nlog
                retried[si] = rec2
            w.net.slow.clear()
            w.sleep(0.05)
            burst = []
            for _ in range(per):
                if rid >= len(plan['requests']):
                    break
                o = run.obs[rid] = ReqObs(w, rid)
                o.after_switch = si
                try:
                    o.start(session, run.statement(rid, plan['requests'][rid]), timeout=3.0)
                    if plan.get('burst_after'):
                        burst.append(o)     # several at once: a pool with more than one connection spreads them
                    else:
                        o.wait()
                except Exception as e:
                    o.result = ('err', type(e).__name__, str(e)[:160])
                rid += 1
            for o in burst:
                try:
                    o.wait()
                except Exception as e:
                    o.result = ('err', type(e).__name__, str(e)[:160])
    run.user = user
    try:
        status = run.run(settle=0.5)
    except Deadlock as e:
        # every thread is blocked for good with no timer or event left: a switch still waited for (judged below) can never complete
        status = 'deadlock: %s' % e
    V = Violations()
    nontrivial = False
    alllog = fc.all_logs()
    for si, rec in enumerate(switches):
        sw = plan['switches'][si]
        V.check('C20/completes')
        states = set(rec['pools'].values())
        if states - set(['ok']) or sw['reject']:
            nontrivial = True
        if 'no-connection' in states:
            sim.probe('pool_without_connection')
        if 'at-capacity' in states:
            sim.probe('connection_at_capacity_at_switch')
        if plan.get('version', 4) < 3 and rec.get('end') is not None:
            grown = [nc for nd in fc.nodes for nc in nd.conns if not nc.events and rec['start'] < nc.accepted_seq < rec['end']]
            if grown:
                sim.probe('pool_grew_during_switch')
        if rec['outcome'] is None:
            why = 'pool-without-connection' if 'no-connection' in states else ('pool-shutdown' if 'shutdown' in states else (
                'connection-at-capacity' if 'at-capacity' in states else 'other'))
            V.add('C20/completes', 'switch-never-completed:' + why,
                  'switch to %s (%s) neither returned nor raised by the end of the run; pool states at the start: %r' % (rec['ks'], sw['how'], rec['pools']))
            continue
        # which pools' USE were rejected during this switch window
        rejected = [e for e in alllog if e.get('use') == rec['ks'] and rec['start'] <= e['seq'] <= rec['end'] and
                    str(e['node']) in sw['reject'] and e['node'] != 0 and e['conn'] in rec['conns'] and e.get('behaviour_use_error')]
        if rejected:
            sim.probe('pool_rejects_use')
            V.check('C20/reported')
            if rec['outcome'][0] == 'ok':
                V.add('C20/reported', 'pool-error-swallowed', 'switch to %s reported success although node(s) %r rejected USE on their pooled connection'
                      % (rec['ks'], sorted(set(e['node'] for e in rejected))))
        if rec['outcome'][0] == 'ok':
            sim.probe('switch_succeeded')
        else:
            sim.probe('switch_raised')
    for si, rec2 in retried.items():
        V.check('C20/completes')
        if rec2['outcome'] is None:
            V.add('C20/completes', 'switch-never-completed:retry', 'retried switch to %s never completed' % rec2['ks'])
    # applied: requests after a successful switch see the new keyspace at the node
    for rid, o in sorted(run.obs.items()):
        si = getattr(o, 'after_switch', None)
        if si is None or si >= len(switches):
            continue
        rec = retried.get(si, switches[si])
        if not rec['outcome'] or rec['outcome'][0] != 'ok':
            continue
        for e in run.node_entries(rid):
            V.check('C20/applied')
            sim.probe('request_after_switch')
            if e.get('keyspace') != rec['ks']:
                st = rec['pools'].get(fc.nodes[e['node']].addr)
                how = 'connection-replaced-during-switch' if (st in ('ok', 'at-capacity') and e['conn'] not in rec['conns']) else (st or 'new-pool')
                V.add('C20/applied', 'request-on-old-keyspace:' + how,
                      'after the switch to %s reported success, request %d reached node %d on a connection whose keyspace is %r (pool state at switch: %s)'
                      % (rec['ks'], rid, e['node'], e.get('keyspace'), st))
    for cr in sim.crashes:
        V.add('C20/completes', 'thread-exception', 'thread %s died: %s' % (cr[0], cr[1]))
    return {'violations': V.items, 'rules_checked': V.checked, 'nontrivial': nontrivial,
            'faults': dict(w.net.fault_counts), 'states': [w.abstract_state()],
            'summary': {'status': status, 'switches': [(r['ks'], r['outcome'] and r['outcome'][0], r['pools']) for r in switches]},
            'stratum': ('remote' if plan.get('remote_nodes') else 'plain') + ('-v2pool' if plan.get('version', 4) < 3 else '')}
