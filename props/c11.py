"""C11 Messages pushed concurrently reach the socket whole and in order (W-PUSH: asyncio and Twisted reactors)."""
import ssl
import struct

from dsim import seams
from dsim.core import HarnessError
from props.common import gen_strategy, quiet_logging, Violations, set_knob
from worlds.push import PushWorld

ID = 'C11'
TIERS = {'quick': {'runs': 18000, 'budget_s': 55, 'wall_cap': 90, 'block': 60},
         'thorough': {'runs': 600000, 'budget_s': 840, 'wall_cap': 90, 'block': 60}}
SHRINK_LISTS = ['messages']
COVERAGE_RULE = ('one run = one real AsyncioConnection (real asyncio.BaseEventLoop scheduling on the virtual clock, simulated selector and '
                 'sockets) or TwistedConnection (reactor and transport stubs) after a scripted handshake; 1-4 pusher threads plus, '
                 'sometimes, pushes issued from the event-loop thread itself push up to 60 self-describing messages (thread, index, '
                 'length, patterned payload) with sizes 1, b-1, b, b+1, 2b, 2b+1, 5b-3 around out_buffer_size b in {64, 4096}; the socket '
                 'takes partial writes, returns EAGAIN with a small send buffer, may raise SSLWantWrite (asyncio) and may be reset '
                 'mid-stream; line-level pre-emption inside push/_push_msg/handle_write; distinct = event-log digest; non-trivial = at '
                 'least two threads pushed and a message larger than the chunk size was pushed')
RULES = {
    'C11/whole': 'the bytes at the peer parse as a sequence of complete pushed messages (at most the last one cut short, and only after a '
                 'reset or defunct)',
    'C11/once': 'no message appears twice',
    'C11/order': 'messages of one thread appear in the order that thread pushed them',
    'C11/liveness': 'without a connection fault every pushed message has arrived once pushes stopped and the socket drained',
}
WORLD_INFO = {'real': ['AsyncioConnection.push/_push_msg/handle_write/handle_read/__init__/initialize_reactor/close, asyncio.BaseEventLoop '
                       '(tasks, queues, locks, call_soon_threadsafe, timers)', 'TwistedConnection.push/add_connection/client_connection_made, '
                       'TwistedLoop, TwistedConnectionProtocol', 'Connection handshake code'],
              'stub': ['selector and socket coroutines of the asyncio loop (dsim.aioloop)', 'Twisted reactor (callFromThread FIFO, delayed calls) and '
                       'TCP transport (write buffer flushed through the simulated socket)', 'sockets/TCP, peer']}
ASSUMPTIONS = ['an SSLWantWrite raised by a send means "nothing was written, retry later"; the unchanged driver treats it as fatal (defunct), '
               'which the rules allow: the stream then only has to be a clean prefix',
               'Twisted\'s own guarantee (callFromThread is FIFO, transport.write is atomic) is assumed, not checked']
REQUIRED_PROBES = ['multi_chunk_message', 'two_threads_pushed', 'push_from_loop_thread', 'burst_from_loop_thread', 'partial_write', 'eagain', 'preempted_in_push',
                   'asyncio_reactor', 'twisted_reactor', 'reset_mid_stream']


def prepare():
    seams.install_static()
    quiet_logging()


def gen_plan(rng, tier):
    reactor = rng.choice(['asyncio', 'asyncio', 'twisted'])
    b = rng.choice([64, 64, 4096])
    sizes = [1, b - 1, b, b + 1, 2 * b, 2 * b + 1, 5 * b - 3]
    nthreads = rng.choice([1, 2, 2, 3, 4])
    loop_pushes = rng.random() < 0.35
    msgs = []
    for _ in range(rng.choice([2, 5, 10, 20, 40, 60])):
        t = rng.randrange(nthreads + (1 if loop_pushes else 0))
        msgs.append({'thread': t, 'size': rng.choice(sizes), 'think': rng.choice([0, 0, 0, 0.001, 0.01])})
    fault = None
    r = rng.random()
    if r < 0.12:
        fault = {'kind': 'rst', 'at': rng.choice([0.0005, 0.003, 0.02])}
    elif r < 0.3 and reactor == 'asyncio':
        fault = {'kind': 'ssl_want_write', 'p': rng.choice([0.02, 0.1])}
    return {'reactor': reactor, 'out_buffer_size': b, 'nthreads': nthreads, 'loop_pushes': loop_pushes, 'loop_burst': rng.choice([1, 2, 3, 4]), 'messages': msgs,
            'sndbuf': rng.choice([1 << 20, 1 << 20, 100, 300] if b == 64 else [1 << 20, 1 << 20, 5000, 20000]), 'partial_write_p': rng.choice([0, 0.3, 0.8]), 'fault': fault,
            'lat': [0.0002, rng.choice([0.001, 0.01])],
            'strategy': gen_strategy(rng), 'line_p': rng.choice([0, 0.02, 0.1, 0.3]), 'points': rng.choice([0, 2, 6])}


def payload(t, k, size):
    pat = bytes([(t * 37 + k * 11 + j) % 251 for j in range(min(size, 251))])
    return (pat * (size // max(len(pat), 1) + 1))[:size] if size else b''


def run_plan(plan, seed, choices=None):
    w = PushWorld(plan, seed, choices, horizon=120.0, step_cap=2500000,
                  net={'lat': tuple(plan['lat']), 'sndbuf': plan['sndbuf'], 'partial_write_p': plan['partial_write_p'], 'chunk_mode': 'whole'})
    sim = w.sim
    sim.probe('asyncio_reactor' if plan['reactor'] == 'asyncio' else 'twisted_reactor')
    set_knob(w.conn_class, 'out_buffer_size', plan['out_buffer_size'])
    V = Violations()
    st = {'pushed': {}, 'defunct': False}
    nthreads = plan['nthreads']
    per_thread = {}
    for m in plan['messages']:
        per_thread.setdefault(m['thread'], []).append(m)
    fault = plan.get('fault')
    if fault and fault['kind'] == 'ssl_want_write':
        from dsim import aioloop
        frng = __import__('random').Random(seed ^ 0x5511)

        def send_fault(sock, nbytes):
            if st.get('conn') is not None and frng.random() < fault['p']:
                w.net.count('ssl_want_write')
                return ssl.SSLWantWriteError('sim: the TLS layer cannot write now')
            return None
        set_knob(aioloop.SimLoop, 'send_fault', staticmethod(send_fault))

    def make(t, k, size):
        return struct.pack('>BHI', t, k, size) + payload(t, k, size)

    def pusher(t):
        conn = st['conn']
        for k, m in enumerate(per_thread.get(t, [])):
            data = make(t, k, m['size'])
            st['pushed'].setdefault(t, []).append(k)
            try:
                conn.push(data)
            except Exception as e:
                st.setdefault('push_errors', []).append(repr(e))
                return
            if m['think']:
                w.sleep(m['think'])

    def loop_pusher():
        # pushes issued from the event-loop thread itself, one per loop iteration
        t = nthreads
        conn = st['conn']
        todo = list(enumerate(per_thread.get(t, [])))

        def one():
            if not todo:
                st['loop_done'] = True
                return
            # one callback on the loop thread may push several messages back to back (a response handler that sends follow-ups)
            for _ in range(plan.get('loop_burst', 1)):
                if not todo:
                    break
                k, m = todo.pop(0)
                st['pushed'].setdefault(t, []).append(k)
                sim.probe('push_from_loop_thread')
                try:
                    conn.push(make(t, k, m['size']))
                except Exception as e:
                    st.setdefault('push_errors', []).append(repr(e))
                    st['loop_done'] = True
                    return
            if plan.get('loop_burst', 1) > 1:
                sim.probe('burst_from_loop_thread')
            w.loop_call(one)
        w.loop_call(one)

    def main():
        try:
            conn = w.factory(5.0, protocol_version=4, compression=False)
        except Exception as e:
            st['connect_error'] = repr(e)
            return
        st['conn'] = conn
        if fault and fault['kind'] == 'rst':
            sim.at(fault['at'], lambda: (w.peer.conns[0].conn.rst('rst'), sim.probe('reset_mid_stream')), 'rst mid-stream')
        ts = [w.spawn(pusher, 'push%d' % t, t) for t in range(nthreads)]
        if plan['loop_pushes'] and per_thread.get(nthreads):
            loop_pusher()
        else:
            st['loop_done'] = True
        for t in ts:
            t.join()
        for _ in range(400):
            if st.get('loop_done'):
                break
            w.sleep(0.005)
        # drain: wait until nothing new arrives for a while
        last = -1
        while True:                  # as long as bytes keep arriving (bounded by the horizon)
            w.sleep(0.1)
            n = len(w.peer.conns[0].stream)
            if n == last:
                break
            last = n
        st['defunct'] = bool(conn.is_defunct or conn.is_closed)
        st['last_error'] = repr(conn.last_error)
        conn.close()
        w.sleep(0.05)

    if plan.get('line_p') or plan.get('points'):
        C_ = w.conn_class
        funcs = [C_.push]
        if plan['reactor'] == 'asyncio':
            funcs += [C_._push_msg, C_.handle_write]
        sim.enable_line_preemption(funcs, p=plan.get('line_p', 0), points=plan.get('points', 0), est_lines=40 * (len(plan['messages']) + 1))
    t = w.spawn(main, 'main')
    status = sim.run(until=lambda: t.state == 'done')
    if status != 'done':
        raise HarnessError('run did not finish: %s' % status)
    desc = 'reactor %s, out_buffer_size %d, %d threads%s, %d messages, sndbuf %d, partial writes %.1f, fault %r' % (
        plan['reactor'], plan['out_buffer_size'], nthreads, ' + loop thread' if plan['loop_pushes'] else '', len(plan['messages']),
        plan['sndbuf'], plan['partial_write_p'], fault)
    if st.get('connect_error'):
        # nothing can be pushed on a connection that was never established: the handshake itself did not get through
        V.check('C11/liveness')
        V.add('C11/liveness', 'handshake-not-written:%s' % plan['reactor'],
              'factory() failed with %s: the OPTIONS message pushed by the connection itself never reached the socket; %s' % (st['connect_error'], desc))
        return {'violations': V.items, 'rules_checked': V.checked, 'nontrivial': False, 'faults': dict(w.net.fault_counts),
                'summary': {'status': status}, 'stratum': plan['reactor']}
    if sim.preemptions:
        sim.probe('preempted_in_push', sim.preemptions)
    for k_ in ('partial_write', 'eagain'):
        if w.net.fault_counts.get(k_):
            sim.probe(k_, w.net.fault_counts[k_])
    buf = bytes(w.peer.conns[0].stream)
    pos = 0
    got = {}
    faulted = bool(fault and fault['kind'] == 'rst') or st['defunct']
    V.check('C11/whole')
    V.check('C11/once')
    V.check('C11/order')
    ok = True
    while pos < len(buf):
        if pos + 7 > len(buf):
            if not faulted:
                V.add('C11/whole', 'truncated-header', 'stream of %d bytes ends inside a header at %d; %s' % (len(buf), pos, desc))
            ok = False
            break
        t_, k_, size = struct.unpack('>BHI', buf[pos:pos + 7])
        want = per_thread.get(t_, [])
        if k_ >= len(want) or want[k_]['size'] != size:
            V.add('C11/whole', 'garbled-header', 'at offset %d the stream has header (thread %d, index %d, size %d) which was never pushed: messages '
                  'are interleaved or cut; %s' % (pos, t_, k_, size, desc))
            ok = False
            break
        body = buf[pos + 7:pos + 7 + size]
        if len(body) < size:
            if body != payload(t_, k_, size)[:len(body)]:
                V.add('C11/whole', 'garbled-payload', 'message (thread %d, index %d) is cut short and its bytes differ; %s' % (t_, k_, desc))
            elif not faulted:
                V.add('C11/whole', 'truncated-message', 'message (thread %d, index %d, %d bytes) has only %d bytes at the end of the stream; %s'
                      % (t_, k_, size, len(body), desc))
            ok = False
            break
        if body != payload(t_, k_, size):
            V.add('C11/whole', 'garbled-payload', 'payload of message (thread %d, index %d, %d bytes) differs from what was pushed: another message\'s '
                  'bytes are interleaved; %s' % (t_, k_, size, desc))
            ok = False
            break
        seq = got.setdefault(t_, [])
        if k_ in seq:
            V.add('C11/once', 'message-twice', 'message (thread %d, index %d) appears twice; %s' % (t_, k_, desc))
            ok = False
            break
        if seq and seq[-1] > k_:
            V.add('C11/order', 'out-of-order', 'thread %d: index %d arrived after %d; %s' % (t_, k_, seq[-1], desc))
            ok = False
            break
        seq.append(k_)
        pos += 7 + size
    if ok:
        for t_, seq in got.items():
            if seq != list(range(len(seq))):
                V.add('C11/order', 'gap-in-thread-sequence', 'thread %d: arrived %r; %s' % (t_, seq[:20], desc))
        if not faulted:
            V.check('C11/liveness')
            for t_, ks in st['pushed'].items():
                if got.get(t_, []) != ks:
                    V.add('C11/liveness', 'message-missing', 'thread %d pushed %d messages, %d arrived (last error %s, push errors %r); %s'
                          % (t_, len(ks), len(got.get(t_, [])), st.get('last_error'), st.get('push_errors'), desc))
                    break
    if len([t_ for t_ in st['pushed'] if st['pushed'][t_]]) >= 2:
        sim.probe('two_threads_pushed')
    big = any(m['size'] > plan['out_buffer_size'] for m in plan['messages'])
    if big:
        sim.probe('multi_chunk_message')
    for cr in sim.crashes:
        if not cr[0].startswith(('main', 'push')):
            V.add('C11/whole', 'thread-exception', 'thread %s died: %s' % (cr[0], cr[1]))
    return {'violations': V.items, 'rules_checked': V.checked, 'nontrivial': bool(big and len(st['pushed']) >= 2),
            'faults': dict(w.net.fault_counts), 'summary': {'status': status, 'bytes': len(buf), 'defunct': st['defunct']},
            'stratum': plan['reactor']}
