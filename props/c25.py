"""C25 Host state changes keep a single reconnector and notify listeners once (W-FULL)."""
from dsim import seams
from dsim.core import HarnessError
from props.common import gen_stalls, gen_strategy, quiet_logging, Violations, set_knob, line_offset
from worlds.full import FullWorld, default_cluster_spec, ReqObs

ID = 'C25'
TIERS = {'quick': {'runs': 7500, 'budget_s': 55, 'wall_cap': 150, 'block': 40},
         'thorough': {'runs': 250000, 'budget_s': 840, 'wall_cap': 150, 'block': 40}}
SHRINK_LISTS = ['events']
COVERAGE_RULE = ('one run = real Cluster with 1-2 Sessions over 2-3 fake nodes, executor 1-4 workers, status/topology event windows '
                 '0-1 s, ConstantReconnectionPolicy(0.3-1.5 s, unlimited); up to 8 timed events: node crash (RST or black hole) / '
                 'restart, with or without gossip events; RST of pooled or control connections; STATUS_CHANGE UP/DOWN that are '
                 'timely, duplicated, stale (DOWN for a healthy node) or false (UP while still down); REMOVED_NODE / NEW_NODE; a '
                 'pool creation that fails after a successful probe; a second session shut down by the application at any moment (also while '
                 'on_up is opening its pool); background requests; then everything heals and a liveness '
                 'window follows; reconnection handlers are observed through wrappers of start/cancel/try_reconnect/'
                 'on_reconnection; distinct = event-log digest; non-trivial = at least one host went down')
RULES = {
    'C25/single-reconnector': 'per host at most one reconnection series is active at any time (started, not cancelled, not succeeded, '
                              'not exhausted), and exactly one while the host is marked down, known and not ignored',
    'C25/no-reconnect-removed': 'no reconnection attempt starts for a host after its removal completed',
    'C25/notify-once': 'listeners see strictly alternating down/up per host, at most one add and one remove per membership',
    'C25/up-after-reconnect': 'a successful reconnection probe is followed by the host being marked up and one up notification '
                              '(unless opening the pools then failed, which restarts reconnection)',
    'C25/pools': 'after the last fault healed, within the liveness window every host marked up and not ignored has a live pool in every session; '
                 'and at every "up" notification every running session has an open pool for that host unless a concurrent down/removal took it away',
}
WORLD_INFO = {'real': ['Cluster.on_up/on_down/on_add/on_remove/_start_reconnector/signal_connection_failure/_cleanup_failed_on_up_handling',
                       'Session.on_up/on_down/add_or_renew_pool/update_created_pools, Host, _HostReconnectionHandler, _Scheduler',
                       'ControlConnection status/topology event handlers'],
              'stub': ['libev C binding', 'sockets/TCP', 'ThreadPoolExecutor', 'fake nodes emitting gossip events (timely, duplicated, stale, false)']}
ASSUMPTIONS = ['heartbeats (interval 2 s, timeout 1 s) are on so that silently dead idle connections are noticed inside the liveness window',
               'an already-scheduled run() of a cancelled handler is inert and is not an attempt (DESIGN 5.1 item 15)',
               'failure detection is lazy (DESIGN 5.1 item 3): no rule demands "down" at a particular instant']
REQUIRED_PROBES = ['host_down', 'host_up_again', 'duplicate_up_event', 'stale_down_event', 'false_up_event', 'removed_node_event',
                   'pool_creation_failed_after_probe', 'control_connection_moved', 'slow_probe_connects', 'cancelled_during_probe',
                   'session_shut_down_mid_run']

EVENT_KINDS = ['crash', 'crash', 'restart', 'rst_pool', 'rst_control', 'ev_up_dup', 'ev_down_stale', 'ev_up_false', 'ev_removed',
               'refuse_pool_once', 'crash', 'restart', 'rst_pool', 'ev_up_dup', 'close_session']


def prepare():
    seams.install_static()
    quiet_logging()


def gen_plan(rng, tier):
    n = rng.choice([2, 3, 3])
    events = []
    t = 0.3
    for _ in range(rng.choice([1, 2, 3, 5, 8])):
        t += rng.choice([0.05, 0.3, 1.0, 2.5])
        events.append({'at': round(t, 3), 'kind': rng.choice(EVENT_KINDS), 'node': rng.randrange(n),
                       'how': rng.choice(['rst', 'rst', 'blackhole']), 'announce': rng.choice([None, 0.01, 0.3])})
    slow = None
    if rng.random() < 0.2:
        # a node is taken down, comes back silently and slowly (probes take a while), and is removed from the ring around then
        i = rng.randrange(1, n)
        t0 = rng.choice([0.4, 0.8])
        t1 = t0 + rng.choice([0.2, 0.6, 1.2])
        events = [{'at': t0, 'kind': 'crash', 'node': i, 'how': 'rst', 'announce': 0.01},
                  {'at': round(t1, 3), 'kind': 'restart', 'node': i, 'how': 'rst', 'announce': None},
                  {'at': round(t1 + rng.choice([0.05, 0.2, 0.4, 0.7, 1.0, 1.5, 2.0]), 3), 'kind': rng.choice(['ev_removed', 'ev_removed', 'crash']),
                   'node': i, 'how': 'rst', 'announce': 0.01}]
        slow = {'node': i, 'mult': rng.choice([10, 30, 60])}
        if rng.random() < 0.5:
            # ... or it flaps while a slow reconnection probe of an earlier, meanwhile cancelled, reconnector is still connecting
            t = t1
            events = events[:2]
            for kind in ['ev_up_dup', 'crash', 'restart', 'crash', 'restart'][:rng.choice([2, 4, 5])]:
                t += rng.choice([0.1, 0.3, 0.6, 1.0])
                events.append({'at': round(t, 3), 'kind': kind, 'node': i, 'how': 'rst', 'announce': rng.choice([None, 0.01])})
            if rng.random() < 0.5:
                # denser: UP events and connection resets every few hundred milliseconds while probes take that long
                t = t1
                events = events[:2]
                for _ in range(rng.choice([3, 5, 7])):
                    t += rng.choice([0.05, 0.1, 0.2, 0.4])
                    events.append({'at': round(t, 3), 'kind': rng.choice(['ev_up_dup', 'rst_pool', 'rst_pool', 'ev_up_dup', 'rst_control']), 'node': i,
                                   'how': 'rst', 'announce': None})
    elif rng.random() < 0.2:
        # an UP event for a node that is (still or again) down, arriving while its reconnector is waiting for its next attempt:
        # on_up runs, pool creation fails, and the host must end up with a reconnector again
        i = rng.randrange(1, n)
        t0 = rng.choice([0.4, 0.8])
        events = [{'at': t0, 'kind': 'crash', 'node': i, 'how': rng.choice(['rst', 'rst', 'blackhole']), 'announce': rng.choice([None, 0.01])}]
        t1 = t0
        for _ in range(rng.choice([1, 1, 2])):
            t1 += rng.choice([0.1, 0.25, 0.5, 0.9])
            events.append({'at': round(t1, 3), 'kind': 'ev_up_false', 'node': i, 'how': 'rst', 'announce': None})
        if rng.random() < 0.3:
            events.append({'at': round(t1 + rng.choice([0.3, 1.0]), 3), 'kind': rng.choice(['ev_up_dup', 'ev_down_stale', 'rst_control']), 'node': rng.randrange(n),
                           'how': 'rst', 'announce': None})
    fixed = {}
    if slow is None and rng.random() < 0.2:
        # a slow reconnection probe is in flight when an UP event arrives; the pools that on_up tries to open are refused, so a
        # new reconnector takes over - and then the old, cancelled reconnector's probe completes successfully
        i = rng.randrange(1, n)
        d = rng.choice([2.5, 3.0])
        events = [{'at': 0.4, 'kind': 'crash', 'node': i, 'how': 'rst', 'announce': 0.01},
                  {'at': 0.5, 'kind': 'restart', 'node': i, 'how': 'rst', 'announce': None}]
        T = 0.4 + d + rng.choice([0.02, 0.05, 0.1, 0.2])
        events += [{'at': round(T, 3), 'kind': 'refuse_pool_once', 'node': i, 'how': 'rst', 'announce': None},
                   {'at': round(T + 0.005, 3), 'kind': 'ev_up_dup', 'node': i, 'how': 'rst', 'announce': None}]
        if rng.random() < 0.5:
            events.append({'at': round(T + rng.choice([0.8, 1.5]), 3), 'kind': rng.choice(['ev_removed', 'crash', 'rst_pool']), 'node': i, 'how': 'rst', 'announce': 0.01})
        slow = {'node': i, 'mult': rng.choice([30, 60])}
        fixed = {'window': 0, 'reconnect_delay': d}
    nsessions = rng.choice([1, 1, 2])
    if slow is None and not fixed and rng.random() < 0.15:
        # a second session is shut down by the application while Cluster.on_up is opening pools for a node whose reconnection
        # probe has just succeeded (connects are slow): that session reports "no pool", nothing signals a connection failure,
        # and the host must still end up with a reconnector or be marked up
        i = rng.randrange(1, n)
        d = rng.choice([0.7, 1.5])
        mult = rng.choice([30, 60, 100])
        events = [{'at': 0.4, 'kind': 'crash', 'node': i, 'how': 'rst', 'announce': 0.01},
                  {'at': 0.5, 'kind': 'restart', 'node': i, 'how': 'rst', 'announce': None}]
        t = 0.4 + d
        for _ in range(rng.choice([1, 2, 3])):
            t += rng.choice([0.05, 0.1, 0.2, 0.3, 0.5])
            events.append({'at': round(t, 3), 'kind': 'close_session', 'node': i, 'how': 'rst', 'announce': None})
            break
        slow = {'node': i, 'mult': mult}
        fixed = {'window': 0, 'reconnect_delay': d}
        nsessions = 2
    deep = None
    if slow is None and not fixed and rng.random() < 0.1:
        # two sessions; the thread handling "host may be up" is descheduled between asking the first and the second session for a
        # pool, long enough for the first pool to be ready (or to fail) before the second is asked
        i = rng.randrange(1, n)
        events = [{'at': 0.4, 'kind': 'crash', 'node': i, 'how': 'rst', 'announce': rng.choice([None, 0.01])},
                  {'at': round(0.4 + rng.choice([0.2, 0.6]), 3), 'kind': 'restart', 'node': i, 'how': 'rst', 'announce': rng.choice([None, 0.0])}]
        if rng.random() < 0.4:
            events.append({'at': round(events[1]['at'] + rng.choice([0.3, 0.8]), 3), 'kind': 'refuse_pool_once', 'node': i, 'how': 'rst', 'announce': None})
        nsessions = 2
        where = rng.choice(['future = session.add_or_renew_pool', 'future.add_done_callback', 'have_future = True', 'futures.add(future)'])
        deep = [['on_up', line_offset('cassandra.cluster', 'Cluster.on_up', where, 48), rng.choice([0.05, 0.2, 0.5]), rng.choice([2, 4])]]
    plan_ = {'cluster': default_cluster_spec(n), 'version': 4, 'events': events, 'sessions': nsessions, 'slow_connect': slow,
            'executor_threads': rng.choice([1, 2, 4]), 'window': rng.choice([0, 0.2, 1.0]),
            'reconnect_delay': rng.choice([0.3, 0.7, 1.5]), 'traffic': rng.random() < 0.6,
            'strategy': gen_strategy(rng), 'time_jump_p': 0, 'line_p': rng.choice([0, 0, 0.005]), 'points': rng.choice([0, 2, 4]),
            'stalls': gen_stalls(rng, ['on_up', 'on_up', 'on_down', '_start_reconnector', 'on_remove', '_on_up_future_completed', 'run'], 0.3, max_line=72)}
    plan_.update(plan_.pop('stalls'))
    plan_.update(fixed)
    if deep:
        plan_.pop('focus_stall', None)
        plan_.pop('stall', None)
        plan_['deep_stalls'] = deep
    return plan_


def run_plan(plan, seed, choices=None):
    t_last = max([e['at'] for e in plan['events']] + [1.0])
    heal_at = t_last + 2.0
    w = FullWorld(plan, seed, choices, horizon=heal_at + 60.0, step_cap=6000000)
    sim, fc = w.sim, w.fc
    sim.spin_limit = 1500
    cpool = w.cpool
    H = cpool._HostReconnectionHandler
    hlog = []        # (seq, t, handler serial, host addr, kind)
    serials = {}
    live = {}        # Host -> reconnection handlers started and neither cancelled, successful nor exhausted
    untracked = {}   # Host -> virtual time since when its only live handler has not been the one the Host refers to
    untracked_bad = []

    def track_monitor():
        # "exactly one active reconnection series": the series that is alive must be the one Host._reconnection_handler names,
        # or nobody can cancel it any more (transitions swap the two in two steps, hence the 2 s of grace)
        for host, hs in live.items():
            if len(hs) == 1 and host._reconnection_handler not in hs:
                t0 = untracked.setdefault(host, sim.vnow())
                if sim.vnow() - t0 > 2.0 and len(untracked_bad) < 2:
                    untracked_bad.append((sim.nlog, str(host.endpoint.address), t0, sim.vnow(), hid(next(iter(hs)))))
                    untracked[host] = 1e18
            else:
                untracked.pop(host, None)
    sim.monitors.append(track_monitor)

    def hid(h):
        if id(h) not in serials:
            serials[id(h)] = len(serials) + 1
        return serials[id(h)]

    def wrap(name, kind, after=False):
        orig = getattr(H, name)

        def wrapper(self, *a, **k):
            if not after:
                hlog.append((sim.nlog, sim.vnow(), hid(self), str(self.host.endpoint.address), kind, getattr(self, '_cancelled', False)))
                sim.rec('reconnector', '%s h%d %s' % (kind, hid(self), self.host.endpoint.address))
                if kind == 'start':
                    if not getattr(self, '_cancelled', False):      # (a handler replaced before it was started is inert: its run() returns at once)
                        live.setdefault(self.host, set()).add(self)
                elif kind in ('cancel', 'success'):
                    live.get(self.host, set()).discard(self)
            elif kind == 'exception' and len(a) > 1 and a[1] is None:
                live.get(self.host, set()).discard(self)          # schedule exhausted
            r = orig(self, *a, **k)
            if after:
                hlog.append((sim.nlog, sim.vnow(), hid(self), str(self.host.endpoint.address), kind,
                             (a[1] if kind == 'exception' and len(a) > 1 else None) if kind != 'attempt-done' else getattr(self, '_cancelled', False)))
            return r
        set_knob(H, name, wrapper)
    wrap('start', 'start')
    wrap('cancel', 'cancel')
    wrap('try_reconnect', 'attempt')
    wrap('try_reconnect', 'attempt-done', after=True)       # (logged only when the probe succeeded) cancelled flag right before run() checks it
    wrap('on_reconnection', 'success')
    wrap('on_exception', 'exception', after=True)
    remove_spans = []      # (host address, seq at entry, seq at return) of every Cluster.on_remove call
    import functools
    orig_on_remove = w.ccl.Cluster.on_remove

    @functools.wraps(orig_on_remove)
    def on_remove_span(self_, host):
        s0 = sim.nlog
        try:
            return orig_on_remove(self_, host)
        finally:
            remove_spans.append((str(host.endpoint.address), s0, sim.nlog))
    set_knob(w.ccl.Cluster, 'on_remove', on_remove_span)
    pool_removals = []     # (seq, id(session), host address, name of the calling function)
    orig_remove_pool = w.ccl.Session.remove_pool

    @functools.wraps(orig_remove_pool)
    def remove_pool_logged(self_, host):
        import sys as _sys
        pool_removals.append((sim.nlog, id(self_), str(host.endpoint.address), _sys._getframe(1).f_code.co_name))
        return orig_remove_pool(self_, host)
    set_knob(w.ccl.Session, 'remove_pool', remove_pool_logged)
    down_spans = []        # (host address, seq at entry, seq at return) of every Cluster.on_down body (it runs on the executor)
    body_on_down = w.ccl.Cluster.on_down
    while hasattr(body_on_down, '__wrapped__'):
        body_on_down = body_on_down.__wrapped__

    @functools.wraps(body_on_down)
    def on_down_span(self_, host, *a, **k):
        s0 = sim.nlog
        try:
            return body_on_down(self_, host, *a, **k)
        finally:
            down_spans.append((str(host.endpoint.address), s0, sim.nlog))
    set_knob(w.ccl.Cluster, 'on_down', w.ccl.run_in_executor(on_down_span))
    up_entries = []        # (seq, host address) of every Cluster.on_up call
    orig_on_up = w.ccl.Cluster.on_up

    @functools.wraps(orig_on_up)
    def on_up_logged(self_, host):
        up_entries.append((sim.nlog, str(host.endpoint.address)))
        return orig_on_up(self_, host)
    set_knob(w.ccl.Cluster, 'on_up', on_up_logged)
    up_without_pool = []   # (seq, host address, session index): at an "up" notification a running session had no pool for the host

    class PoolsAtUp(w.cpol.HostStateListener):
        def on_up(self, host):
            for si, s_ in enumerate(st['sessions']):
                if s_.is_shutdown:
                    continue
                p_ = s_._pools.get(host)
                # (a pool that was opened during this up handling and has shut itself down again - its fresh connection was reset -
                # is the failure detector's business: only a session that was given no pool at all counts)
                if p_ is None:
                    up_without_pool.append((sim.nlog, str(host.endpoint.address), si, id(s_)))

        def on_down(self, host):
            pass

        def on_add(self, host):
            pass

        def on_remove(self, host):
            pass
    if plan.get('line_p') or plan.get('points') or plan.get('focus_stall') or plan.get('deep_stalls'):
        C = w.ccl.Cluster
        sim.enable_line_preemption([C.on_up, C.on_down, C._start_reconnector, C.on_remove, C._on_up_future_completed,
                                    w.cpool._ReconnectionHandler.run], p=plan.get('line_p', 0), points=plan.get('points', 0), est_lines=2000)
    st = {'sessions': []}
    lbp_events = []

    class RecLBP(w.cpol.RoundRobinPolicy):
        def on_up(self, host):
            lbp_events.append((sim.nlog, 'up', str(host.endpoint.address)))
            return w.cpol.RoundRobinPolicy.on_up(self, host)

        def on_down(self, host):
            lbp_events.append((sim.nlog, 'down', str(host.endpoint.address)))
            return w.cpol.RoundRobinPolicy.on_down(self, host)

        def on_add(self, host):
            lbp_events.append((sim.nlog, 'add', str(host.endpoint.address)))
            return w.cpol.RoundRobinPolicy.on_add(self, host)

        def on_remove(self, host):
            lbp_events.append((sim.nlog, 'remove', str(host.endpoint.address)))
            return w.cpol.RoundRobinPolicy.on_remove(self, host)

    def apply(ev):
        k = ev['kind']
        i = ev['node']
        node = fc.nodes[i]
        if k == 'crash':
            if node.up:
                fc.crash(i, how=ev['how'], announce=ev['announce'])
                sim.probe('host_down')
        elif k == 'restart':
            if not node.up:
                fc.restart(i, announce=ev['announce'])
        elif k == 'rst_pool':
            fc.rst_conns(i, 'pool')
        elif k == 'rst_control':
            fc.rst_conns(i, 'control')
            sim.probe('control_connection_moved')
        elif k == 'ev_up_dup':
            if node.up:
                fc.announce(i, 'STATUS_CHANGE', 'UP', delay=0.0)
                fc.announce(i, 'STATUS_CHANGE', 'UP', delay=0.05)
                sim.probe('duplicate_up_event')
        elif k == 'ev_down_stale':
            if node.up:
                fc.announce(i, 'STATUS_CHANGE', 'DOWN', delay=0.0)
                sim.probe('stale_down_event')
        elif k == 'ev_up_false':
            if not node.up:
                fc.announce(i, 'STATUS_CHANGE', 'UP', delay=0.0)
                sim.probe('false_up_event')
        elif k == 'ev_removed':
            if i != 0 and node in fc.members:
                fc.remove_member(i, announce=0.0)
                st.setdefault('removed', []).append((i, sim.vnow()))
                sim.probe('removed_node_event')
        elif k == 'close_session':
            if len(st['sessions']) > 1 and not st['sessions'][-1].is_shutdown:
                sess = st['sessions'][-1]
                w.spawn(sess.shutdown, 'closer')
                st['closed_at'] = sim.vnow()
                sim.probe('session_shut_down_mid_run')
        elif k == 'refuse_pool_once':
            # the next connects to this node are refused for a short while (a probe may succeed just before)
            node.mode = 'refuse'
            sim.at(0.25, lambda: setattr(node, 'mode', 'accept' if node.up else node.mode), 'accept again n%d' % i)
            sim.probe('pool_creation_failed_after_probe')

    def traffic():
        k = 0
        while sim.vnow() < heal_at + 6.0 + st.get('t0', 0):
            o = ReqObs(w, 5000 + k)
            try:
                o.start(st['sessions'][0], "SELECT * FROM ks1.t /*rid=%d*/" % (5000 + k), timeout=0.5)
                o.wait()
            except Exception:
                pass
            k += 1
            w.sleep(0.25)

    def main():
        lbp = RecLBP()
        st['lbp'] = lbp
        try:
            cluster = w.make_cluster(protocol_version=4, idle_heartbeat_interval=2.0, idle_heartbeat_timeout=1.0,
                                     profile={'lbp': lbp, 'timeout': 2.0},
                                     executor_threads=plan['executor_threads'], connect_timeout=1,
                                     status_event_refresh_window=plan['window'], topology_event_refresh_window=plan['window'],
                                     reconnection_policy=w.cpol.ConstantReconnectionPolicy(plan['reconnect_delay'], max_attempts=None))
            for _ in range(plan['sessions']):
                st['sessions'].append(cluster.connect(wait_for_all_pools=True))
        except Exception as e:
            st['connect_error'] = repr(e)
            return
        w.session = st['sessions'][0]
        cluster.register_listener(PoolsAtUp())
        st['t0'] = sim.vnow()
        if plan.get('slow_connect'):
            w.net.slow[fc.nodes[plan['slow_connect']['node']].addr] = plan['slow_connect']['mult']
            sim.probe('slow_probe_connects')
        for ev in plan['events']:
            sim.at(ev['at'], (lambda ev=ev: apply(ev)), 'plan %s n%d' % (ev['kind'], ev['node']))

        def heal():
            w.net.slow.clear()
            for i, node in enumerate(fc.nodes):
                node.mode = 'accept' if node.up else node.mode
                if not node.up:
                    fc.restart(i, announce=0.05)
            st['t_heal'] = sim.vnow()
        sim.at(heal_at, heal, 'heal everything')
        if plan['traffic']:
            w.spawn(traffic, 'traffic')
        w.sleep(heal_at + 20.0)
        st['t_end'] = sim.vnow()

    w.spawn(main, 'main')
    status = w.run_until_users_done()
    if st.get('connect_error'):
        raise HarnessError('connect failed: %s' % st['connect_error'])
    V = Violations()
    if status != 'done':
        V.add('C25/pools', 'run-did-not-finish', 'status %s' % status)
    cluster = w.cluster
    removed_addrs = set(fc.nodes[i].addr for i, _ in st.get('removed', []))
    # ---- single reconnector: replay handler events
    by_host = {}
    for e in sorted(hlog, key=lambda e: e[0]):
        by_host.setdefault(e[3], []).append(e)
    for addr, evs in by_host.items():
        active = {}
        started = set()
        V.check('C25/single-reconnector')
        for (seq, t, h, a, kind, extra) in evs:
            if kind == 'start':
                if not extra:                      # start() of an already-cancelled handler is a no-op
                    active[h] = seq
                    started.add(h)
            elif kind == 'cancel':
                active.pop(h, None)
            elif kind == 'success':
                active.pop(h, None)
            elif kind == 'exception' and extra is None:
                active.pop(h, None)                # schedule exhausted
            if len(active) > 1:
                V.add('C25/single-reconnector', 'two-active-reconnectors',
                      'host %s had %d active reconnection series at seq %d (handlers %r)' % (addr, len(active), seq, sorted(active)))
                break
        st.setdefault('active_end', {})[addr] = len(active)
    # attempts by handlers that were never started / already cancelled are inert by definition (they return at the check)
    # ---- end state: down hosts have exactly one active series
    if status == 'done' and cluster is not None:
        for h in cluster.metadata.all_hosts():
            addr = str(h.endpoint.address)
            V.check('C25/single-reconnector')
            if h.is_up is False and st.get('active_end', {}).get(addr, 0) != 1:
                V.add('C25/single-reconnector', 'down-host-without-reconnector',
                      'host %s is marked down at the end of the run with %d active reconnection series' % (addr, st.get('active_end', {}).get(addr, 0)))
    for (seq, addr, t0, t1, h) in untracked_bad:
        V.add('C25/single-reconnector', 'live-reconnector-not-tracked-by-host',
              'host %s: reconnection handler %d has been running since before t=%.2f, but from t=%.2f to t=%.2f (seq %d) Host._reconnection_handler did not '
              'refer to it: nothing can cancel it when the host comes up or is removed' % (addr, h, t0, t0, t1, seq))
    # ---- a handler cancelled while its probe was connecting must stay silent
    for addr, evs in by_host.items():
        for (seq, t, h, a, kind, extra) in evs:
            if kind == 'success':
                V.check('C25/no-reconnect-removed')
                if extra:
                    done = [x for x in evs if x[4] == 'attempt-done' and x[2] == h and x[0] < seq]
                    window = bool(done) and not done[-1][5]
                    V.add('C25/no-reconnect-removed', 'cancelled-reconnector-reported-success' + (':cancelled-between-check-and-report' if window else ''),
                          'host %s: reconnection handler %d had been cancelled (host marked up, removed, or handler replaced) while its probe was '
                          'connecting, yet it reported the reconnection at seq %d' % (addr, h, seq))
                    break
            if kind == 'cancel' and any(x[4] == 'attempt' and x[2] == h and x[0] < seq for x in evs) and \
                    not any(x[4] in ('exception', 'success') and x[2] == h and x[0] < seq and x[0] > max(y[0] for y in evs if y[4] == 'attempt' and y[2] == h and y[0] < seq) for x in evs):
                sim.probe('cancelled_during_probe')
    # ---- no reconnect after remove
    rec = w.recorder.events
    for addr in by_host:
        removes = [e for e in rec if e[2] == 'remove' and e[3] == addr]
        adds_after = lambda s: [e for e in rec if e[2] == 'add' and e[3] == addr and e[0] > s]
        for rm in removes:
            V.check('C25/no-reconnect-removed')
            # the removal is complete when Cluster.on_remove returns (it tells the listeners first and cancels the reconnector last);
            # an attempt that starts while it is still running is not "after the removal"
            span = [sp for sp in remove_spans if sp[0] == addr and sp[1] <= rm[0] <= sp[2]]
            rm_done = span[0][2] if span else rm[0]
            if span and span[0][2] > rm[0] and any(k_ == 'attempt' and not x_ and rm[0] < s_ <= rm_done for (s_, t_, h_, a_, k_, x_) in by_host[addr]):
                sim.probe('attempt_started_while_on_remove_was_running')
            for (seq, t, h, a, kind, extra) in by_host[addr]:
                if kind == 'attempt' and not extra and seq > rm_done and not adds_after(rm[0]):
                    # an attempt that was already connecting when the removal ran is not "started after"
                    # how did a removed host get a reconnector?  Known way: up handling (Cluster.on_up) that began before the removal - a
                    # STATUS_CHANGE UP event already scheduled, or a reconnection that had succeeded - completes after it: the removed host is
                    # marked up again (and reconnected when it fails later), or opening its pools fails and _cleanup_failed_on_up_handling
                    # starts a new reconnector for it.
                    began_before = any(ep[2] == 'STATUS_CHANGE' and ep[3][0] == 'UP' and ep[3][1] == addr and ep[0] < rm[0] for ep in fc.events_pushed) or \
                        any(e_[4] == 'success' and not e_[5] and e_[0] < seq for e_ in by_host.get(addr, []))
                    # ... or down handling (Cluster.on_down, on the executor) that began before the removal completed and went on after
                    # it: it starts a reconnector for the host that has just been removed (same root cause: transitions not serialised)
                    down_before = any(a_ == addr and s0_ <= rm_done and s1_ > rm[0] for (a_, s0_, s1_) in down_spans)
                    V.add('C25/no-reconnect-removed', 'reconnect-after-remove' + (':up-handling-began-before-removal' if began_before else (
                        ':down-handling-began-before-removal' if down_before else '')),
                          'host %s was removed at seq %d but a reconnection attempt started at seq %d%s'
                          % (addr, rm[0], seq, ' (up handling for it had begun before the removal)' if began_before else ''))
                    break
    # ---- notify once (listener and policy)
    # one policy instance shared by m execution profiles (default profile + graph profiles that wrap it) is told m times per transition by
    # ProfileManager: collapse each run of m identical consecutive calls into one notification
    m = 1
    if cluster is not None:
        m = max(1, sum(1 for p_ in cluster.profile_manager.profiles.values() if p_.load_balancing_policy is st.get('lbp') or
                       getattr(p_.load_balancing_policy, '_child_policy', None) is st.get('lbp')))
    collapsed = []
    per_addr = {}
    for ev_ in lbp_events:                 # per host: calls for different hosts interleave when two executor threads notify at once
        per_addr.setdefault(ev_[2], []).append(ev_)
    for addr_, evs_ in per_addr.items():
        run_ = []
        for ev_ in evs_:
            if run_ and run_[-1][1] == ev_[1] and len(run_) < m:
                run_.append(ev_)
            else:
                if run_:
                    collapsed.append(run_[0])
                run_ = [ev_]
        if run_:
            collapsed.append(run_[0])
    collapsed.sort()
    for name, events in (('listener', [(e[0], e[2], e[3]) for e in rec]), ('policy', collapsed)):
        per = {}
        perseq = {}
        for (seq, kind, addr) in events:
            per.setdefault(addr, []).append(kind)
            perseq.setdefault(addr, []).append(seq)
        for addr, ks in per.items():
            V.check('C25/notify-once')
            state = None
            for idx_, k in enumerate(ks):
                if k == 'add':
                    if state in ('up', 'down'):
                        V.add('C25/notify-once', 'add-twice', '%s saw for host %s: %r' % (name, addr, ks))
                        break
                    state = 'up'
                elif k == 'remove':
                    if state == 'removed':
                        V.add('C25/notify-once', 'remove-twice', '%s saw for host %s: %r' % (name, addr, ks))
                        break
                    state = 'removed'
                elif k in ('up', 'down') and state == 'removed':
                    sq = perseq[addr][idx_]
                    rm_sq = perseq[addr][idx_ - 1]
                    # up handling that began before the removal completed (a STATUS_CHANGE UP event already scheduled, or a reconnection
                    # that succeeded before on_remove got to cancel the handler - it notifies listeners first and cancels last) and
                    # finished after it: known finding
                    pending_up = (
                        any(ep[2] == 'STATUS_CHANGE' and ep[3][0] == 'UP' and ep[3][1] == addr and ep[0] < rm_sq for ep in fc.events_pushed) or
                        any(e_[4] == 'success' and not e_[5] and e_[0] < sq for e_ in by_host.get(addr, [])))
                    pending_down = any(a_ == addr and s0_ < sq and s1_ > rm_sq for (a_, s0_, s1_) in down_spans)
                    V.add('C25/notify-once', 'notified-after-remove:%s:%s' % (k, name) + (':up-handling-began-before-removal' if pending_up else (
                        ':down-handling-began-before-removal' if pending_down else '')),
                          '%s saw for host %s: %r' % (name, addr, ks))
                    break
                elif k == 'up':
                    if state == 'up' and name == 'listener':
                        V.add('C25/notify-once', 'up-twice', '%s saw for host %s: %r' % (name, addr, ks))
                        break
                    state = 'up'
                elif k == 'down':
                    if state == 'down':
                        # did up handling (Cluster.on_up) start between the two downs?  It takes the reconnector away (cancel, or the
                        # handler's own success) and only marks the host up once the pools are open; a failure that is reported in
                        # between with expect_host_to_be_down=True is then announced as a second "down" (known finding).
                        # "In between" = after the last up/add the listeners saw for this host (that is when a handling completed).
                        s2 = perseq[addr][idx_]
                        last_up = max([e_[0] for e_ in rec if e_[3] == addr and e_[2] in ('up', 'add') and e_[0] < s2] or [0])
                        false_up = any(e_[4] in ('cancel', 'success') and last_up < e_[0] < s2 for e_ in by_host.get(addr, []))
                        # (also when that up handling had no reconnector to take away - the driver had not noticed the failure yet when
                        # the UP event came: the call of Cluster.on_up itself is what counts)
                        false_up = false_up or any(a_ == addr and last_up < s_ < s2 for (s_, a_) in up_entries)
                        V.add('C25/notify-once', 'down-twice:' + name + (':during-up-handling' if false_up else ''),
                              '%s saw for host %s: %r' % (name, addr, ks))
                        break
                    state = 'down'
    # ---- pools after heal
    if status == 'done' and cluster is not None and st.get('t_heal') is not None:
        V.check('C25/pools')
        for h in cluster.metadata.all_hosts():
            addr = str(h.endpoint.address)
            if addr in removed_addrs:
                continue
            if h.is_up:
                sim.probe('host_up_again')
                for si, s in enumerate(st['sessions']):
                    if s.is_shutdown:
                        continue
                    p = s._pools.get(h)
                    if p is None or p.is_shutdown:
                        # known way to get here: the pool shut itself down in return_connection() expecting the host to be marked down, but
                        # Cluster.on_down ignored the failure because another session still (or again) had an open pool to the host
                        others_open = any(s2 is not s and s2._pools.get(h) is not None and not s2._pools[h].is_shutdown and
                                          s2._pools[h].get_state()['open_count'] > 0 for s2 in st['sessions'])
                        discounted = p is not None and p.is_shutdown and others_open and cluster._discount_down_events
                        V.add('C25/pools', 'up-host-without-pool' + (':pool-shut-down-but-down-signal-discounted-for-other-session' if discounted else ''), 'host %s is marked up %.0f s after everything healed but session %d has %s'
                              % (addr, 20.0, si, 'no pool' if p is None else 'a shut-down pool'))
            elif h.is_up is False:
                V.add('C25/pools', 'host-still-down-after-heal', 'host %s is still marked down %.0f s after every node was restarted (reconnect delay %.1f)'
                      % (addr, 20.0, plan['reconnect_delay']))
    # ---- marked up only with pools everywhere
    for (seq, addr, si, sid) in up_without_pool:
        V.check('C25/pools')
        entry = max([e[0] for e in up_entries if e[1] == addr and e[0] < seq] or [0])
        # a pool taken away again by a concurrent down / removal / failed-up cleanup between the start of this up handling and the
        # notification is not "marked up without a pool" (Cluster.on_up itself removes the old pools first: that call is not counted)
        others = [r for r in pool_removals if r[1] == sid and r[2] == addr and entry < r[0] < seq and r[3] != 'on_up' and r[3] != 'on_up_logged']
        if not others:
            V.add('C25/pools', 'marked-up-while-a-session-has-no-pool',
                  'listeners were told that host %s is up (seq %d) while running session %d had no open pool for it and nothing had removed one since '
                  'the up handling began (seq %d)' % (addr, seq, si, entry))
            break
    # ---- up after reconnect
    for addr, evs in by_host.items():
        for (seq, t, h, a, kind, extra) in evs:
            if kind == 'success':
                V.check('C25/up-after-reconnect')
                later_up = [e for e in rec if e[3] == addr and e[2] in ('up', 'add') and e[0] > seq]
                later_start = [x for x in evs if x[4] == 'start' and x[0] > seq]
                before = [e for e in rec if e[3] == addr and e[0] < seq]
                already_up = bool(before) and before[-1][2] in ('up', 'add')    # marked up by another path meanwhile: nothing to announce
                if not later_up and not later_start and not already_up and addr not in removed_addrs and status == 'done':
                    V.add('C25/up-after-reconnect', 'no-up-after-successful-probe',
                          'host %s: reconnection probe succeeded at seq %d but no up notification and no new reconnection series followed' % (addr, seq))
    for cr in sim.crashes:
        if not cr[0].startswith(('main', 'traffic')):
            V.add('C25/notify-once', 'thread-exception', 'thread %s died: %s' % (cr[0], cr[1]))
    return {'violations': V.items, 'rules_checked': V.checked, 'nontrivial': bool(sim.probes.get('host_down')),
            'faults': dict(w.net.fault_counts), 'states': [w.abstract_state()],
            'summary': {'status': status, 'handlers': len(serials), 'listener': [(e[2], e[3][-1]) for e in rec][:30]},
            'stratum': 'sessions=%d' % plan['sessions']}
