"""C42 Node-list refreshes make cluster metadata mirror the system tables (W-FULL)."""
from dsim import seams
from dsim.core import HarnessError
from props.common import gen_strategy, quiet_logging, Violations
from worlds.full import FullWorld

ID = 'C42'
TIERS = {'quick': {'runs': 9000, 'budget_s': 55, 'wall_cap': 120, 'block': 50},
         'thorough': {'runs': 300000, 'budget_s': 840, 'wall_cap': 120, 'block': 50}}
SHRINK_LISTS = ['steps']
COVERAGE_RULE = ('one run = real Cluster/ControlConnection/Metadata against a fake cluster (Cassandra 3.11 peers or 4.0 peers_v2 '
                 'personality) of up to 6 nodes; a sequence of up to 6 snapshot mutations (peer joins, leaves, join+leave in one '
                 'snapshot, dc/rack move, token change only, invalid rows: null rpc_address/host_id/data_center/rack or empty '
                 'tokens, duplicate endpoint), each followed by cluster.refresh_nodes() from the user thread or by a pushed '
                 'TOPOLOGY_CHANGE event; two refreshes may race; distinct = event-log digest; non-trivial = at least one '
                 'mutation changed membership, location, tokens or validity')
RULES = {
    'C42/hosts': 'after a refresh the known hosts are exactly the control node plus every valid, distinct peer row',
    'C42/add-once': 'a newly seen host is announced (on_add) exactly once',
    'C42/remove-once': 'a vanished host is removed (on_remove) exactly once',
    'C42/location': 'a dc/rack change is visible on the Host and reaches the load-balancing policy (on_down + on_up around the change)',
    'C42/token-map': 'the token map (token -> owner) equals the snapshot whenever membership or tokens changed',
}
WORLD_INFO = {'real': ['ControlConnection._refresh_node_list_and_token_map/_is_valid_peer/_update_location_info, topology event handling',
                       'Cluster.add_host/remove_host/on_add/on_remove, Metadata.rebuild_token_map/add_or_return_host, TokenMap'],
              'stub': ['libev C binding', 'sockets/TCP', 'ThreadPoolExecutor', 'fake nodes serving system.local/peers/peers_v2 (independent codec)']}
ASSUMPTIONS = ['the control node (node 0) never leaves', 'tokens are Murmur3 integers given as strings, as Cassandra stores them']
REQUIRED_PROBES = ['control_connection_moved_during_removal', 'removed_event_for_listed_peer', 'peer_added', 'peer_removed', 'replace_in_one_snapshot', 'location_changed', 'tokens_changed_only', 'invalid_row',
                   'duplicate_endpoint', 'event_driven_refresh', 'concurrent_refreshes']

KINDS = ['add', 'add', 'remove', 'replace', 'move', 'retoken', 'invalidate', 'fix', 'duplicate', 'false_removed']


def prepare():
    seams.install_static()
    quiet_logging()


def gen_plan(rng, tier):
    total = 6
    initial = rng.choice([1, 2, 3, 4])
    release = rng.choice(['3.11.4', '4.0.1'])
    nodes = []
    for i in range(total):
        nodes.append({'dc': rng.choice(['dc1', 'dc1', 'dc2']), 'rack': rng.choice(['r1', 'r2']), 'release': release,
                      'versions': [3, 4], 'member': i < initial,
                      'tokens': [str((i * 1000 + k * 7777) * 1000003 - 4 * 10 ** 18) for k in range(rng.choice([1, 2, 4]))]})
    steps = []
    members = set(range(initial))
    for _ in range(rng.choice([1, 2, 3, 4, 6])):
        kind = rng.choice(KINDS)
        out = sorted(set(range(1, total)) - members)
        inn = sorted(members - set([0]))
        st = {'kind': kind, 'via': rng.choice(['refresh', 'refresh', 'refresh', 'event', 'two_refreshes'])}
        if kind == 'add' and out:
            st['node'] = rng.choice(out)
            members.add(st['node'])
        elif kind == 'remove' and inn:
            st['node'] = rng.choice(inn)
            members.discard(st['node'])
        elif kind == 'replace' and out and inn:
            st['node'] = rng.choice(out)
            st['gone'] = rng.choice(inn)
            members.add(st['node'])
            members.discard(st['gone'])
        elif kind == 'move' and inn:
            st['node'] = rng.choice(inn + [0])
            st['dc'] = rng.choice(['dc1', 'dc2', 'dc3'])
            st['rack'] = rng.choice(['r1', 'r2', 'r3'])
        elif kind == 'retoken' and members:
            st['node'] = rng.choice(sorted(members))
            st['tokens'] = [str(rng.randrange(-9 * 10 ** 18, 9 * 10 ** 18)) for _ in range(rng.choice([1, 2, 3]))]
        elif kind == 'invalidate' and inn:
            st['node'] = rng.choice(inn)
            st['field'] = rng.choice(['host_id', 'data_center', 'rack', 'tokens', 'rpc_address'])
        elif kind == 'fix' and inn:
            st['node'] = rng.choice(inn)
        elif kind == 'duplicate' and inn:
            st['node'] = rng.choice(inn)
        elif kind == 'false_removed' and inn:
            # gossip announces REMOVED_NODE for a peer that the system tables still list (decommission not finished, or a stale event)
            st['node'] = rng.choice(inn)
            st['via'] = 'event'
        else:
            continue
        steps.append(st)
    if 1 in members and len(members - set([0, 1])) >= 1 and rng.random() < 0.35:
        # last step: the control connection is lost, a peer leaves the ring while the driver is not listening, and the driver
        # re-attaches its control connection to another node whose tables no longer list that peer
        steps.append({'kind': 'ctrl_move_remove', 'node': rng.choice(sorted(members - set([0, 1]))), 'via': 'reconnect'})
    plan = {'cluster': {'nodes': nodes}, 'version': 4, 'steps': steps, 'strategy': gen_strategy(rng), 'time_jump_p': 0,
            'line_p': rng.choice([0, 0, 0.01]), 'points': rng.choice([0, 2])}
    adds = [s_ for s_ in steps if s_['kind'] in ('add', 'replace')]
    if adds and rng.random() < 0.3:
        # two refreshes (two application threads) meet the same new peer: one of them is descheduled inside Cluster.add_host /
        # Metadata.add_or_return_host for a moment while the other goes through
        for s_ in adds:
            s_['via'] = 'two_refreshes'
        plan['deep_stalls'] = [[rng.choice(['add_or_return_host', 'add_or_return_host', 'add_host']), rng.randrange(4, 14), rng.choice([0.01, 0.05]),
                                rng.choice([1, 2, 3])]]
    return plan


def run_plan(plan, seed, choices=None):
    w = FullWorld(plan, seed, choices, horizon=200.0, step_cap=4000000)
    sim, fc = w.sim, w.fc
    ctrl = fc.nodes[0]
    v2 = ctrl.release.startswith('4')
    st = {'checks': []}
    V = Violations()
    invalid = {}       # node idx -> field
    dup = set()
    if plan.get('line_p') or plan.get('points') or plan.get('deep_stalls'):
        sim.enable_line_preemption([w.ccl.ControlConnection._refresh_node_list_and_token_map, w.ccl.Cluster.add_host,
                                    w.M['cmeta'].Metadata.add_or_return_host], p=plan.get('line_p', 0), points=plan.get('points', 0),
                                   est_lines=600)

    class RecLBP(w.cpol.RoundRobinPolicy):
        def __init__(self):
            w.cpol.RoundRobinPolicy.__init__(self)
            self.events = []

        def on_up(self, host):
            self.events.append((sim.nlog, 'up', str(host.endpoint.address), host.datacenter, host.rack))
            return w.cpol.RoundRobinPolicy.on_up(self, host)

        def on_down(self, host):
            self.events.append((sim.nlog, 'down', str(host.endpoint.address), host.datacenter, host.rack))
            return w.cpol.RoundRobinPolicy.on_down(self, host)
    lbp = RecLBP()

    def valid(i):
        return i not in invalid

    def served_rows():
        """The peers rows the control node serves right now, judged by the documented validity rule
        (independent re-statement: address, host_id, data_center, rack present, tokens non-empty; first row per endpoint wins)."""
        rows = [n.peer_row(ctrl, v2=v2) for n in fc.members if n is not ctrl] + list(fc.extra_peer_rows.get(ctrl.idx, []))
        out, seen = [], set([ctrl.addr])
        for r in rows:
            addr = r.get('native_address') if v2 else r.get('rpc_address')
            if not addr or addr in ('0.0.0.0', '::'):
                addr = r.get('peer')
            if not (addr and r.get('host_id') and r.get('data_center') and r.get('rack') and r.get('tokens')):
                continue
            if addr in seen:
                continue
            seen.add(addr)
            out.append((addr, r))
        return out

    def expected_hosts():
        return set([ctrl.addr]) | set(a_ for a_, _ in served_rows())

    def expected_tokens():
        out = dict((int(t), ctrl.addr) for t in ctrl.tokens)
        for a_, r in served_rows():
            for t in r['tokens']:
                out[int(t)] = a_
        return out

    def drop_dups(idx):
        addr = fc.nodes[idx].addr
        rows = fc.extra_peer_rows.get(ctrl.idx, [])
        fc.extra_peer_rows[ctrl.idx] = [r for r in rows if r.get('rpc_address', r.get('native_address')) != addr]

    def apply(stp):
        k = stp['kind']
        n = fc.nodes[stp['node']]
        key = (ctrl.idx, n.idx)
        if k == 'add':
            fc.add_member(n.idx, announce=None)
            sim.probe('peer_added')
        elif k == 'remove':
            fc.remove_member(n.idx, announce=None)
            drop_dups(n.idx)
            sim.probe('peer_removed')
        elif k == 'replace':
            fc.add_member(n.idx, announce=None)
            fc.remove_member(stp['gone'], announce=None)
            drop_dups(stp['gone'])
            invalid.pop(stp['gone'], None)
            sim.probe('replace_in_one_snapshot')
        elif k == 'move':
            n.dc, n.rack = stp['dc'], stp['rack']
            sim.probe('location_changed')
        elif k == 'retoken':
            n.tokens = list(stp['tokens'])
            sim.probe('tokens_changed_only')
        elif k == 'invalidate':
            f = stp['field']
            ov = {'tokens': []} if f == 'tokens' else ({('native_address' if v2 else 'rpc_address'): None, 'peer': None} if f == 'rpc_address' else {f: None})
            fc.peer_overrides[key] = ov
            invalid[n.idx] = f
            sim.probe('invalid_row')
        elif k == 'fix':
            fc.peer_overrides.pop(key, None)
            invalid.pop(n.idx, None)
        elif k == 'duplicate':
            row = dict(n.peer_row(ctrl, v2=v2))
            row['peer'] = '10.9.9.%d' % (n.idx + 1)
            import uuid
            row['host_id'] = uuid.UUID(int=0xDD00 + n.idx)
            fc.extra_peer_rows.setdefault(ctrl.idx, []).append(row)
            dup.add(n.idx)
            sim.probe('duplicate_endpoint')
        fc.snapshot_id += 1

    def check(label, membership_or_tokens_changed):
        cluster = w.cluster
        V.check('C42/hosts')
        known = set(str(h.endpoint.address) for h in cluster.metadata.all_hosts())
        exp = expected_hosts()
        if known != exp:
            V.add('C42/hosts', 'host-set-differs:' + ('stale-host-kept' if known - exp else 'host-missing'),
                  'after %s: known hosts %r, system tables say %r' % (label, sorted(known), sorted(exp)))
        V.check('C42/token-map')
        tm = cluster.metadata.token_map
        have = dict((t.value, str(h.endpoint.address)) for t, h in (tm.token_to_host_owner.items() if tm is not None else []))
        want = expected_tokens()
        if have != want:
            only = 'tokens-changed-without-membership-change' if not membership_or_tokens_changed.get('membership') else 'after-membership-change'
            V.add('C42/token-map', 'token-map-stale:' + only,
                  'after %s: token map has %d tokens for %r, snapshot has %d tokens for %r'
                  % (label, len(have), sorted(set(have.values())), len(want), sorted(set(want.values()))))
        elif tm is not None and known == exp:
            # rebuilt means rebuilt from the hosts the metadata holds now: an owner that is a Host object the metadata no longer knows
            # (the endpoint was removed and added again) is a token map that was not rebuilt after a membership change
            current = dict((str(x.endpoint.address), x) for x in cluster.metadata.all_hosts())
            stale = sorted(set(str(h.endpoint.address) for h in tm.token_to_host_owner.values()
                               if current.get(str(h.endpoint.address)) is not h))
            if stale:
                V.add('C42/token-map', 'token-map-stale:owner-is-a-host-object-no-longer-in-metadata',
                      'after %s: the token map still maps tokens to the Host object(s) of %r that were removed from the metadata (is_up %r); '
                      'the metadata now holds other Host objects for those endpoints'
                      % (label, stale, [h.is_up for h in tm.token_to_host_owner.values() if str(h.endpoint.address) in stale][:3]))
            else:
                sim.probe('token_map_owners_current')
        V.check('C42/location')
        for n in fc.members:
            if n is ctrl or valid(n.idx):
                h = [x for x in cluster.metadata.all_hosts() if str(x.endpoint.address) == n.addr]
                if h and (h[0].datacenter, h[0].rack) != (n.dc, n.rack):
                    V.add('C42/location', 'location-not-updated', 'after %s: host %s is %s/%s in metadata, %s/%s in the system tables'
                          % (label, n.addr, h[0].datacenter, h[0].rack, n.dc, n.rack))

    def refresh_nodes(cluster):
        try:
            cluster.refresh_nodes()
        except Exception as e:
            st.setdefault('refresh_errors', []).append(repr(e))

    def main():
        try:
            # (a dead control connection whose host keeps healthy pooled connections is only noticed by the heartbeat)
            hb = 0.5 if any(x['kind'] == 'ctrl_move_remove' for x in plan['steps']) else 0
            cluster = w.make_cluster(protocol_version=4, idle_heartbeat_interval=hb, idle_heartbeat_timeout=0.5, profile={'lbp': lbp},
                                     topology_event_refresh_window=0, status_event_refresh_window=0,
                                     reconnection_policy=w.cpol.ConstantReconnectionPolicy(50.0, max_attempts=None))
            session = cluster.connect(wait_for_all_pools=True)
        except Exception as e:
            st['connect_error'] = repr(e)
            return
        w.session = session
        check('connect', {'membership': True})
        for k, stp in enumerate(plan['steps']):
            before_members = expected_hosts()
            before_loc = dict((n.idx, (n.dc, n.rack)) for n in fc.nodes)
            mark = sim.nlog
            apply(stp)
            after_members = expected_hosts()
            if stp['kind'] == 'ctrl_move_remove':
                nonlocal ctrl
                victim = fc.nodes[stp['node']]
                old_ctrl = ctrl
                old_ctrl.mode = 'refuse'
                fc.rst_conns(old_ctrl.idx, 'control')
                fc.remove_member(victim.idx, announce=None)
                victim.mode = 'refuse'          # a node that left the ring does not take new client connections
                w.sleep(0.2)
                refresh_nodes(cluster)          # the dead control connection is noticed when it is used; the driver re-attaches elsewhere
                st['refresh_errors'] = []       # (that refresh is expected to fail)
                w.sleep(2.5)
                old_ctrl.mode = 'accept'
                cc = cluster.control_connection._connection
                now = fc.node_by_addr(str(cc.endpoint.address)) if cc is not None else None
                if now is None or now is old_ctrl:
                    continue
                sim.probe('control_connection_moved_during_removal')
                ctrl = now
                invalid.clear()
                w.sleep(0.5)
                check('step %d (control connection lost, %s left the ring meanwhile, control connection re-attached to %s)'
                      % (k, victim.addr, now.addr), {'membership': before_members != expected_hosts()})
                continue
            if stp['kind'] == 'false_removed':
                sim.probe('removed_event_for_listed_peer')
                n_add0, n_rm0 = len([e for e in w.recorder.events if e[2] == 'add']), len([e for e in w.recorder.events if e[2] == 'remove'])
                ctrl.push_event('TOPOLOGY_CHANGE', 'REMOVED_NODE', fc.nodes[stp['node']].addr, 9042)
                w.sleep(1.5)
                # (membership changed only if the driver actually removed or re-added a host: the event may name a peer whose row it
                # had already discarded as invalid, and then nothing changes - the token map is whatever it was before)
                reacted = (len([e for e in w.recorder.events if e[2] == 'add']), len([e for e in w.recorder.events if e[2] == 'remove'])) != (n_add0, n_rm0)
                check('step %d (REMOVED_NODE event for %s, still listed in the peers table)' % (k, fc.nodes[stp['node']].addr), {'membership': reacted})
                continue
            if stp['via'] == 'event' and stp['kind'] in ('add', 'remove'):
                sim.probe('event_driven_refresh')
                node = fc.nodes[stp['node']]
                ctrl.push_event('TOPOLOGY_CHANGE', 'NEW_NODE' if stp['kind'] == 'add' else 'REMOVED_NODE', node.addr, 9042)
                w.sleep(1.5)
                if stp['kind'] == 'remove':
                    # a REMOVED_NODE event removes the host directly; make the tables agree for the following checks
                    pass
            elif stp['via'] == 'two_refreshes':
                sim.probe('concurrent_refreshes')
                t = w.spawn(refresh_nodes, 'refresher', cluster)
                refresh_nodes(cluster)
                t.join()
            else:
                refresh_nodes(cluster)
            w.sleep(0.3)
            check('step %d (%s via %s)' % (k, stp['kind'], stp['via']),
                  {'membership': before_members != after_members})
            # location change must have gone through the policy
            if stp['kind'] == 'move' and (before_loc[stp['node']] != (stp['dc'], stp['rack'])) and (stp['node'] == 0 or valid(stp['node'])) and \
                    fc.nodes[stp['node']].addr in expected_hosts():
                addr = fc.nodes[stp['node']].addr
                evs = [e for e in lbp.events if e[0] > mark and e[2] == addr]
                ups = [e for e in evs if e[1] == 'up' and (e[3], e[4]) == (stp['dc'], stp['rack'])]
                V.check('C42/location')
                if not ups:
                    V.add('C42/location', 'policy-not-told', 'step %d: %s moved to %s/%s but the load-balancing policy saw %r'
                          % (k, addr, stp['dc'], stp['rack'], [(e[1], e[3], e[4]) for e in evs]))
        try:
            cluster.shutdown()
        except Exception:
            pass

    w.spawn(main, 'main')
    status = w.run_until_users_done()
    if st.get('connect_error'):
        raise HarnessError('connect failed: %s' % st['connect_error'])
    if status != 'done':
        V.add('C42/hosts', 'run-did-not-finish', 'status %s' % status)
    # add-once / remove-once over the whole run
    seq = {}
    for (s_, t_, kind, addr) in w.recorder.events:
        if kind in ('add', 'remove'):
            seq.setdefault(addr, []).append(kind)
    for addr, ks in seq.items():
        V.check('C42/add-once')
        for a, b in zip(ks, ks[1:]):
            if a == b:
                V.add('C42/add-once' if a == 'add' else 'C42/remove-once', 'announced-twice:' + a,
                      'host %s: listener saw %r' % (addr, ks))
                break
    if st.get('refresh_errors'):
        V.add('C42/hosts', 'refresh-raised', repr(st['refresh_errors'][0]))
    for cr in sim.crashes:
        if not cr[0].startswith('main'):
            V.add('C42/hosts', 'thread-exception', 'thread %s died: %s' % (cr[0], cr[1]))
    return {'violations': V.items, 'rules_checked': V.checked, 'nontrivial': bool(plan['steps']),
            'faults': dict(w.net.fault_counts), 'states': [w.abstract_state()],
            'summary': {'status': status, 'steps': [s_['kind'] for s_ in plan['steps']]},
            'stratum': 'peers_v2' if v2 else 'peers'}
