"""C32 Concurrent execution returns one ordered result per statement (W-CONC: real cassandra.concurrent over a scripted session)."""
from dsim import seams
from dsim.core import Sim, SimThread, HarnessError
from dsim.net import SimNet
from props.common import gen_strategy, quiet_logging, Violations, set_knob

ID = 'C32'
TIERS = {'quick': {'runs': 12000, 'budget_s': 50, 'wall_cap': 60, 'block': 100},
         'thorough': {'runs': 1500000, 'budget_s': 840, 'wall_cap': 60, 'block': 100}}
SHRINK_LISTS = ['statements']
COVERAGE_RULE = ('one run = execute_concurrent (list or generator results) or execute_concurrent_async over 0-40 statements (sometimes 130 '
                 'synchronously failing ones, past the recursion threshold), concurrency 1-8 or larger than the input, fail-fast on/off; '
                 'each statement fails inside execute_async, completes before callbacks are attached (callback runs inline), or '
                 'completes 0-50 ms later (success or error) from one of 1-2 completer threads standing in for the event loop; caller, '
                 'completers and the session.submit worker run under the baton scheduler with line-level pre-emption inside '
                 'cassandra.concurrent; distinct = event-log digest; non-trivial = at least two completion styles occurred and at least '
                 'one completion came from another thread')
RULES = {
    'C32/one-per-statement': 'without fail-fast (or without failures) the result has exactly one entry per statement, in input order, each '
                             'carrying that statement\'s own outcome',
    'C32/fail-fast': 'with fail-fast the call raises one of the statements\' own failures (generator: after yielding exactly the results of '
                     'the statements before the first failing one) and raises nothing when no statement fails',
    'C32/bounded': 'the number of statements started and not yet completed never exceeds the requested concurrency',
    'C32/returns': 'the call returns or raises (no hang) once every started statement has completed',
    'C32/future-once': 'the future of execute_concurrent_async is completed exactly once (no second set_result/set_exception, no '
                       'InvalidStateError) with the same content rule',
}
WORLD_INFO = {'real': ['cassandra.concurrent: execute_concurrent, execute_concurrent_async, _ConcurrentExecutor, ConcurrentExecutorListResults, '
                       'ConcurrentExecutorGenResults, ConcurrentExecutorFutureResults', 'cassandra.cluster.ResultSet'],
              'stub': ['Session (execute_async/submit) and its response futures: scripted completions', 'threading.Condition (SimCondition)',
                       'concurrent.futures.Future is subclassed only to count completions']}
ASSUMPTIONS = ['a statement is "completed" when its callback/errback has been invoked (or execute_async raised)',
               'which failure fail-fast raises when several are in flight is not prescribed: any failure delivered before the raise is accepted']
REQUIRED_PROBES = ['sync_raise', 'sync_complete', 'async_complete', 'fail_fast_raised', 'generator_results', 'async_variant',
                   'recursion_threshold', 'concurrency_one', 'preempted_in_concurrent']


def prepare():
    seams.install_static()
    quiet_logging()


def gen_plan(rng, tier):
    variant = rng.choice(['list', 'list', 'gen', 'gen', 'async'])
    n = rng.choice([0, 1, 2, 3, 5, 8, 13, 25, 40])
    mode = rng.choice(['mixed', 'mixed', 'mixed', 'all_raise', 'all_sync', 'all_async'])
    stmts = []
    for i in range(n):
        if mode == 'all_raise':
            k = 'raise'
        elif mode == 'all_sync':
            k = rng.choice(['sync_ok', 'sync_ok', 'sync_err'])
        elif mode == 'all_async':
            k = rng.choice(['async_ok', 'async_ok', 'async_ok', 'async_err'])
        else:
            k = rng.choice(['raise', 'sync_ok', 'sync_err', 'async_ok', 'async_ok', 'async_ok', 'async_err'])
        stmts.append({'kind': k, 'delay': rng.choice([0.0, 0.0, 0.001, 0.01, 0.05]), 'by': rng.randrange(2)})
    if rng.random() < 0.03:
        stmts = [{'kind': 'raise', 'delay': 0, 'by': 0} for _ in range(130)]
    if rng.random() < 0.3 and stmts:
        # no failures at all
        for s in stmts:
            s['kind'] = {'raise': 'sync_ok', 'sync_err': 'sync_ok', 'async_err': 'async_ok'}.get(s['kind'], s['kind'])
    return {'variant': variant, 'statements': stmts, 'concurrency': rng.choice([1, 1, 2, 3, 8, 100]), 'fail_fast': rng.random() < 0.5,
            'consume_delay': rng.choice([0, 0, 0.004]), 'strategy': gen_strategy(rng), 'line_p': rng.choice([0, 0.02, 0.1, 0.3]),
            'points': rng.choice([0, 2, 6])}


class Boom(Exception):
    pass


def run_plan(plan, seed, choices=None):
    sim = Sim(seed, strategy=plan.get('strategy'), step_cap=1500000, horizon=120.0, choices=choices)
    net = SimNet(sim)
    M = seams.install_run(sim, net)
    cconc, ccl = M['cconc'], M['ccl']
    from dsim.core import SimCondition, SimLock
    sleep = ccl.time.sleep
    stmts = plan['statements']
    n = len(stmts)
    V = Violations()
    st = {'started': 0, 'completed': 0, 'peak': 0, 'starts': [], 'completions': [], 'submit_used': 0}
    pending = [[], []]            # per completer: list of (due, future)
    wake = [SimCondition(), SimCondition()]
    done_flag = [False]

    def note_start(idx):
        st['started'] += 1
        st['starts'].append((sim.nlog, idx))
        st['peak'] = max(st['peak'], st['started'] - st['completed'])

    def note_complete(idx, how):
        st['completed'] += 1
        st['completions'].append((sim.nlog, idx, how))

    class Fut(object):
        _col_names = ['idx']
        _col_types = [None]
        has_more_pages = False
        _continuous_paging_session = None

        def __init__(self, idx, spec):
            self.idx, self.spec = idx, spec
            self.lock = SimLock()
            self.cbs = None
            self.outcome = None      # ('ok', rows) / ('err', exc)
            self.delivered = False

        def add_callbacks(self, callback, errback, callback_args=(), callback_kwargs=None, errback_args=(), errback_kwargs=None):
            with self.lock:
                self.cbs = (callback, callback_args, errback, errback_args)
                ready = self.outcome is not None and not self.delivered
                if ready:
                    self.delivered = True
            if ready:
                self._deliver('inline')

        def clear_callbacks(self):
            with self.lock:
                self.cbs = None

        def complete(self, outcome, how):
            with self.lock:
                self.outcome = outcome
                ready = self.cbs is not None and not self.delivered
                if ready:
                    self.delivered = True
            if ready:
                self._deliver(how)

        def _deliver(self, how):
            cb, cargs, eb, eargs = self.cbs
            note_complete(self.idx, how)
            if self.outcome[0] == 'ok':
                cb(self.outcome[1], *cargs)
            else:
                eb(self.outcome[1], *eargs)

    class Session(object):
        def execute_async(self, statement, params, timeout=None, execution_profile=None):
            idx = statement
            spec = stmts[idx]
            k = spec['kind']
            note_start(idx)
            if k == 'raise':
                sim.probe('sync_raise')
                note_complete(idx, 'raise')
                raise Boom('raise-%d' % idx)
            f = Fut(idx, spec)
            outcome = ('ok', [(idx,)]) if k.endswith('ok') else ('err', Boom('err-%d' % idx))
            if k.startswith('sync'):
                sim.probe('sync_complete')
                f.outcome = outcome
            else:
                c = spec['by']
                with wake[c]:
                    pending[c].append((sim.now + spec['delay'], idx, f, outcome))
                    wake[c].notify()
            return f

        def submit(self, fn, *args, **kwargs):
            st['submit_used'] += 1
            sim.probe('recursion_threshold')
            t = SimThread(target=lambda: fn(*args, **kwargs), name='submit%d' % st['submit_used'])
            t.start()
            extra_threads.append(t)

    extra_threads = []

    def completer(c):
        while True:
            with wake[c]:
                while not pending[c] and not done_flag[0]:
                    wake[c].wait(1.0)
                if not pending[c] and done_flag[0]:
                    return
                pending[c].sort(key=lambda x: (x[0], x[1]))
                due, idx, f, outcome = pending[c].pop(0)
            d = due - sim.now
            if d > 0:
                sleep(d)
            sim.probe('async_complete')
            f.complete(outcome, 'completer%d' % c)

    # count completions of the async variant's future
    sets = []
    import concurrent.futures as cf

    class CountingFuture(cf.Future):
        def set_result(self, result):
            sets.append((sim.nlog, 'result', self.done()))
            return cf.Future.set_result(self, result)

        def set_exception(self, exc):
            sets.append((sim.nlog, 'exception', self.done()))
            return cf.Future.set_exception(self, exc)
    set_knob(cconc, 'Future', CountingFuture)

    out = {}

    def caller():
        session = Session()
        args = [(i, None) for i in range(n)]
        try:
            if plan['variant'] == 'async':
                sim.probe('async_variant')
                fut = cconc.execute_concurrent_async(session, args, concurrency=plan['concurrency'], raise_on_first_error=plan['fail_fast'])
                out['returned_future_at'] = sim.nlog
                out['future'] = fut
            else:
                res = cconc.execute_concurrent(session, args, concurrency=plan['concurrency'], raise_on_first_error=plan['fail_fast'],
                                               results_generator=(plan['variant'] == 'gen'))
                if plan['variant'] == 'gen':
                    sim.probe('generator_results')
                    got = []
                    out['partial'] = got
                    for r in res:
                        got.append(r)
                        if plan['consume_delay']:
                            sleep(plan['consume_delay'])
                    out['result'] = got
                else:
                    out['result'] = res
        except BaseException as e:
            out['raised'] = e
        out['returned_at'] = sim.nlog
        out['inflight_at_return'] = st['started'] - st['completed']

    E = cconc._ConcurrentExecutor
    if plan.get('line_p') or plan.get('points'):
        funcs = [E.execute, E._execute_next, E._execute, E._on_success, E._on_error,
                 cconc.ConcurrentExecutorGenResults._put_result, cconc.ConcurrentExecutorGenResults._results,
                 cconc.ConcurrentExecutorListResults._put_result, cconc.ConcurrentExecutorListResults._results,
                 cconc.ConcurrentExecutorFutureResults._put_result]
        sim.enable_line_preemption(funcs, p=plan.get('line_p', 0), points=plan.get('points', 0), est_lines=60 * (n + 1))
    tc = SimThread(target=caller, name='caller')
    comps = [SimThread(target=completer, args=(c,), name='completer%d' % c) for c in range(2)]
    for t in [tc] + comps:
        t.start()

    def finished():
        return tc.state == 'done'
    status = sim.run(until=finished)
    # let the completers finish whatever is still pending, then stop them
    if status == 'done':
        sim.run(until=lambda: not pending[0] and not pending[1] and all(t.state != 'runnable' for t in sim.threads))
    done_flag[0] = True
    if out.get('future') is not None:
        # judged once everything that was started has completed: the future may legitimately complete after the call returned
        fut = out['future']
        out['future_done'] = fut.done()
        if fut.done():
            if fut.exception(timeout=0) is not None:
                out['raised'] = fut.exception(timeout=0)
            else:
                out['result'] = fut.result(timeout=0)
        out['returned_at'] = sim.nlog
    if sim.preemptions:
        sim.probe('preempted_in_concurrent', sim.preemptions)
    if plan['concurrency'] == 1:
        sim.probe('concurrency_one')
    kinds = set(s['kind'].split('_')[0] for s in stmts)
    failing = [i for i, s in enumerate(stmts) if s['kind'] in ('raise', 'sync_err', 'async_err')]
    desc = 'variant %s, %d statements %r..., concurrency %d, fail_fast %r' % (
        plan['variant'], n, [s['kind'] for s in stmts[:12]], plan['concurrency'], plan['fail_fast'])
    # ---- returns
    V.check('C32/returns')
    if status != 'done':
        V.add('C32/returns', 'call-did-not-return:%s' % plan['variant'],
              'the call had not returned when nothing could run any more (%s): started %d, completed %d; %s'
              % (status, st['started'], st['completed'], desc))
    else:
        raised = out.get('raised')
        res = out.get('result')

        def outcome_ok(i, r):
            """r is the ExecutionResult for statement i?"""
            try:
                success, val = r
            except Exception:
                return False
            want_ok = stmts[i]['kind'].endswith('ok')
            if bool(success) != want_ok:
                return False
            if want_ok:
                try:
                    return list(val.current_rows) == [(i,)]
                except Exception:
                    return False
            return isinstance(val, Boom) and str(val).endswith('-%d' % i)
        if raised is not None and not isinstance(raised, Boom):
            V.add('C32/one-per-statement', 'unexpected-exception:%s' % type(raised).__name__, 'the call raised %r; %s' % (raised, desc))
        elif plan['fail_fast'] and failing:
            V.check('C32/fail-fast')
            sim.probe('fail_fast_raised')
            if raised is None:
                V.add('C32/fail-fast', 'no-failure-raised:%s' % plan['variant'],
                      'statements %r fail but the call returned %s; %s' % (failing[:5], 'a result' if res is not None else 'nothing', desc))
            else:
                try:
                    ridx = int(str(raised).rsplit('-', 1)[1])
                except Exception:
                    ridx = None
                delivered = set(c[1] for c in st['completions'] if c[0] <= out['returned_at'])
                if ridx not in failing or ridx not in delivered:
                    V.add('C32/fail-fast', 'raised-foreign-failure', 'raised %r which is not a failure delivered before the raise; %s' % (raised, desc))
                if plan['variant'] == 'gen':
                    got = out.get('partial') or []
                    first = failing[0]
                    if ridx != first or len(got) != first or not all(outcome_ok(i, r) for i, r in enumerate(got)):
                        V.add('C32/fail-fast', 'generator-order', 'generator yielded %d results then raised %r; first failing statement is %d; %s'
                              % (len(got), raised, first, desc))
        else:
            V.check('C32/one-per-statement')
            if raised is not None:
                V.add('C32/fail-fast' if not failing else 'C32/one-per-statement', 'raised-without-fail-fast',
                      'the call raised %r although %s; %s' % (raised, 'no statement fails' if not failing else 'fail-fast is off', desc))
            elif plan['variant'] == 'async' and not out.get('future_done'):
                V.add('C32/future-once', 'future-not-completed', 'the returned future is not done although every statement completed; %s' % desc)
            else:
                res = list(res) if res is not None else []
                if len(res) != n:
                    V.add('C32/one-per-statement', 'wrong-result-count:%s' % plan['variant'],
                          '%d results for %d statements; %s' % (len(res), n, desc))
                else:
                    bad = [i for i, r in enumerate(res) if not outcome_ok(i, r)]
                    if bad:
                        V.add('C32/one-per-statement', 'result-at-wrong-position', 'result %d is %r; %s' % (bad[0], res[bad[0]], desc))
        # ---- bounded
        V.check('C32/bounded')
        if st['peak'] > plan['concurrency']:
            V.add('C32/bounded', 'too-many-in-flight', 'peak in-flight %d with concurrency %d; %s' % (st['peak'], plan['concurrency'], desc))
        # each statement started at most once
        started_idx = [s[1] for s in st['starts']]
        if len(set(started_idx)) != len(started_idx):
            V.add('C32/one-per-statement', 'statement-executed-twice', 'starts %r; %s' % (started_idx[:20], desc))
        # ---- future-once
        if plan['variant'] == 'async':
            V.check('C32/future-once')
            again = [s for s in sets if s[2]]
            if again or len(sets) > 1:
                V.add('C32/future-once', 'future-completed-twice:%s' % ('fail-fast' if plan['fail_fast'] and failing else 'plain'),
                      'set_result/set_exception calls %r (third field: future already done); %s' % (sets[:6], desc))
            elif n and not sets:
                V.add('C32/future-once', 'future-never-completed', 'no set_result/set_exception call for %d statements; %s' % (n, desc))
    for cr in sim.crashes:
        if 'InvalidStateError' in cr[1] or 'InvalidStateError' in cr[2]:
            V.add('C32/future-once', 'invalid-state-error', 'thread %s died: %s' % (cr[0], cr[1]))
        elif cr[0] != 'caller':
            V.add('C32/returns', 'thread-exception', 'thread %s died: %s' % (cr[0], cr[1]))
    nontrivial = len(kinds) >= 2 and any(c[2].startswith('completer') for c in st['completions'])
    return {'violations': V.items, 'rules_checked': V.checked, 'nontrivial': nontrivial, 'faults': {},
            'summary': {'status': status, 'n': n, 'started': st['started'], 'peak': st['peak']}, 'stratum': plan['variant']}
