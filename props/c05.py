"""C05 Incoming frames are reassembled exactly under any TCP chunking (world W-CONN)."""
from dsim.core import Sim, HarnessError
from fakecass import codec as C
from props.common import gen_strategy, quiet_logging, Violations, set_knob
from worlds.conn import ConnWorld, HandshakePeer
from dsim import seams

ID = 'C05'
TIERS = {'quick': {'runs': 30000, 'budget_s': 45, 'wall_cap': 60, 'block': 400},
         'thorough': {'runs': 2000000, 'budget_s': 840, 'wall_cap': 60, 'block': 400}}
SHRINK_LISTS = ['requests', 'events']
COVERAGE_RULE = ('one run = protocol version 1-4, in_buffer_size knob, chunking mode, requester threads, a list of '
                 'requests (body size, reply delay, kind) and pushed EVENT frames, drawn from the seed; the peer answers '
                 'in delay order; distinct = event-log digest; non-trivial = the byte stream was split or coalesced '
                 '(a delivery smaller than a frame or a read spanning several frames) and at least 2 frames were delivered')
RULES = {
    'C05/exact': 'every sent response frame is delivered exactly once, with its exact body bytes, to the handler registered for its stream id',
    'C05/order': 'frames are delivered in the order they appear in the byte stream',
    'C05/events': 'every negative-stream frame reaches every watcher of its event type exactly once, in order, and no request handler',
    'C05/clean': 'a fault-free byte stream never defuncts the connection',
    'C05/liveness': 'all frames are delivered by the horizon',
}
WORLD_INFO = {'real': ['cassandra.connection.Connection (process_io_buffer, _read_frame_header, process_msg, send_msg, handshake)',
                       'cassandra.io.libevreactor.LibevConnection/LibevLoop (handle_read, handle_write, push)',
                       'cassandra.protocol.ProtocolHandler encode/decode'],
              'stub': ['libev C binding (dsim.libev)', 'sockets/TCP (dsim.net)', 'server peer (fakecass.codec, scripted)',
                       'requester threads (harness, public Connection API)']}
ASSUMPTIONS = ['TCP semantics: per-direction FIFO, no loss/duplication inside a live connection',
               'protocol versions 1-4, no compression (v5 segments are C06)']
REQUIRED_PROBES = ['split_delivery', 'multi_frame_read', 'event_frames', 'empty_body_frame', 'multi_frame_write', 'frame_of_other_protocol_family']

SIZES = [0, 1, 7, 8, 9, 10, 63, 64, 65, 255, 256, 1000, 4095, 4096, 4097, 8192, 20000, 70000]


def prepare():
    seams.install_static()
    quiet_logging()


def gen_plan(rng, tier):
    n = rng.choice([1, 2, 3, 5, 8, 12, 20, 30])
    nthreads = rng.choice([1, 1, 2, 3, 4])
    big = rng.random() < 0.3
    reqs = []
    for i in range(n):
        size = rng.choice(SIZES if big else SIZES[:14])
        reqs.append({'thread': rng.randrange(nthreads), 'size': size,
                     'delay': rng.choice([0, 0, 0.001, 0.002, 0.01, 0.05]),
                     'kind': rng.choice(['rows', 'rows', 'rows', 'void', 'error', 'ready']),
                     'think': rng.choice([0, 0, 0.001])})
        if reqs[-1]['kind'] == 'error' and rng.random() < 0.25:
            # the peer frames this error in the header layout of the other protocol family (8-byte v1/v2 header on a v3/v4 connection
            # or 9-byte v3/v4 header on a v1/v2 connection), as servers do when they reject a protocol version
            reqs[-1]['other_family'] = True
    events = []
    for i in range(rng.choice([0, 0, 1, 2, 4])):
        events.append({'at': rng.choice([0.0, 0.001, 0.005, 0.02, 0.06]),
                       'etype': rng.choice(['STATUS_CHANGE', 'TOPOLOGY_CHANGE', 'SCHEMA_CHANGE'])})
    return {
        'version': rng.choice([1, 2, 3, 4, 4]),
        'in_buffer_size': rng.choice([1, 7, 8, 9, 10, 64, 4096, 4096]),
        'chunk_mode': rng.choice(['mixed', 'mixed', 'bytes1', 'random', 'boundary', 'tiny', 'whole']),
        'lat': rng.choice([[0.0, 0.0], [0.0005, 0.005], [0.0, 0.02]]),
        'nthreads': nthreads,
        'requests': reqs,
        'events': events,
        'batch_replies': rng.random() < 0.3,
        'strategy': gen_strategy(rng),
        'line_p': rng.choice([0, 0, 0.01]),
    }


def plan_ok(plan):
    return True


class C05Peer(HandshakePeer):
    def __init__(self, world, plan):
        HandshakePeer.__init__(self, world, versions=(1, 2, 3, 4))
        self.plan = plan
        self.stream_log = []        # frames in byte-stream order: (stream, opcode, body)
        self.pending_batch = []

    def on_query(self, pc, fr, req):
        sim = self.sim
        q = (req or {}).get('query', '')
        try:
            k = int(q.split('rid=')[1].split('*')[0])
        except Exception:
            return
        spec = self.plan['requests'][k]
        v = fr['version']
        payload = self.world_payload(k, spec['size'])
        if spec['kind'] == 'rows':
            body = C.rows_body('ks', 't', [('rid', C.T_INT), ('data', C.T_BLOB)], [[k, payload]], version=v)
            op = C.RESULT
        elif spec['kind'] == 'void':
            body = C.void_body()
            op = C.RESULT
        elif spec['kind'] == 'ready':
            body = b''              # header-only frame (what a REGISTER is answered with)
            op = C.READY
        else:
            body = C.error_body(C.E_INVALID, 'err-%d-' % k + 'x' * min(spec['size'], 2000))
            op = C.ERROR
            if spec.get('other_family') and 0 <= fr['stream'] < 128:
                v = (4 if v == 2 else 3) if v < 3 else (2 if v == 4 else 1)
                sim.probe('frame_of_other_protocol_family')
        stream = fr['stream']

        def emit():
            self.stream_log.append((stream, op, body, k))
            if self.plan.get('batch_replies'):
                # replies that become due at the same instant leave in ONE write (frames coalesced)
                self.pending_batch.append(C.frame(v, stream, op, body))
                if len(self.pending_batch) == 1:
                    sim.at(0.0, lambda: self.flush(pc), 'flush-batch')
            else:
                pc.send_frame(v, stream, op, body)
        sim.at(spec['delay'], emit, 'reply rid=%d' % k)

    def flush(self, pc):
        batch, self.pending_batch = self.pending_batch, []
        if len(batch) > 1:
            self.sim.probe('multi_frame_write')
        pc.send_envelopes(batch)

    @staticmethod
    def world_payload(k, size):
        seedb = ('%d:' % k).encode()
        return (seedb * (size // len(seedb) + 1))[:size]

    def push_event(self, pc, idx, etype, version):
        if etype == 'SCHEMA_CHANGE':
            body = C.event_body('SCHEMA_CHANGE', 'CREATED', 'TABLE', 'ks%d' % idx, 'tbl%d' % idx, version=version)
        elif etype == 'STATUS_CHANGE':
            body = C.event_body('STATUS_CHANGE', 'UP', '10.1.%d.%d' % (idx // 250, idx % 250 + 1), 9042)
        else:
            body = C.event_body('TOPOLOGY_CHANGE', 'NEW_NODE', '10.2.%d.%d' % (idx // 250, idx % 250 + 1), 9042)
        self.stream_log.append((-1, C.EVENT, body, ('event', idx, etype)))
        pc.send_frame(version, -1, C.EVENT, body)


def run_plan(plan, seed, choices=None):
    w = ConnWorld(plan, seed, choices, horizon=600.0, step_cap=3000000,
                  net={'lat': tuple(plan['lat']), 'chunk_mode': plan['chunk_mode']})
    sim, M = w.sim, w.M
    cconn = M['cconn']
    proto = __import__('cassandra.protocol', fromlist=['x'])
    set_knob(w.conn_class, 'in_buffer_size', plan['in_buffer_size'])
    peer = C05Peer(w, plan)
    w.listen(peer)
    V = Violations()
    version = plan['version']
    delivered = []      # (seq, rid, stream_registered, header_stream, opcode, raw body, decoded summary)
    ev_delivered = []   # (seq, watcher etype, args)
    state = {'conn': None, 'sent_all': 0}
    real_decode = proto.ProtocolHandler.decode_message
    if plan.get('line_p'):
        sim.enable_line_preemption([cconn.Connection.process_io_buffer, cconn.Connection._read_frame_header,
                                    cconn.Connection.process_msg], p=plan['line_p'])

    def make_handler(k, stream):
        raw = {}

        def decoder(pv, utm, stream_id, flags, opcode, body, decompressor, result_metadata):
            raw['hdr'] = (stream_id, opcode)
            raw['body'] = bytes(body)
            return real_decode(pv, utm, stream_id, flags, opcode, body, decompressor, result_metadata)

        def cb(response):
            rows = getattr(response, 'parsed_rows', None)
            delivered.append((sim.nlog, k, stream, raw.get('hdr'), raw.get('body'), type(response).__name__,
                              rows[0] if rows else None))
            sim.rec('deliver', 'rid=%d stream=%d %s' % (k, stream, type(response).__name__))
        return decoder, cb

    def requester(tid):
        conn = state['conn']
        for k, spec in enumerate(plan['requests']):
            if spec['thread'] != tid:
                continue
            with conn.lock:
                stream = conn.get_request_id()
                conn.in_flight += 1
            decoder, cb = make_handler(k, stream)
            msg = proto.QueryMessage('SELECT /*rid=%d*/' % k, 1)
            try:
                conn.send_msg(msg, stream, cb, decoder=decoder)
            except Exception as e:
                V.add('C05/clean', 'send-failed', 'send_msg raised %r' % (e,))
                return
            if spec['think']:
                M['cconn'].time.sleep(spec['think'])
        state['sent_all'] += 1

    def main():
        try:
            conn = w.factory(10.0, protocol_version=version, compression=False)
        except Exception as e:
            V.add('C05/clean', 'handshake-failed', 'factory raised %r' % (e,))
            return
        state['conn'] = conn
        if plan['events']:
            def mk(et):
                return lambda args: ev_delivered.append((sim.nlog, et, args))
            conn.register_watchers({et: mk(et) for et in ('STATUS_CHANGE', 'TOPOLOGY_CHANGE', 'SCHEMA_CHANGE')},
                                   register_timeout=10.0)
            pc = peer.conns[0]
            for i, e in enumerate(plan['events']):
                sim.at(e['at'], (lambda i=i, e=e: peer.push_event(pc, i, e['etype'], version)), 'push-event %d' % i)
        ts = [w.spawn(requester, 'req%d' % t, t) for t in range(plan['nthreads'])]
        for t in ts:
            t.join()

    w.spawn(main, 'main')
    n_expected = len(plan['requests'])
    n_events = len(plan['events'])

    def finished():
        return (state['sent_all'] == plan['nthreads'] and len(delivered) >= n_expected and
                len(ev_delivered) >= n_events) or bool(V.items)

    status = sim.run(until=finished)
    conn = state['conn']
    # ---- oracle
    sent_frames = [f for f in peer.stream_log if f[0] >= 0]
    sent_events = [f for f in peer.stream_log if f[0] < 0]
    by_rid = {}
    for d in delivered:
        V.check('C05/exact')
        seq, k, stream, hdr, body, tname, row0 = d
        if k in by_rid:
            V.add('C05/exact', 'duplicate-delivery', 'handler of rid %d invoked twice' % k)
        by_rid[k] = d
    for (stream, op, body, k) in sent_frames:
        d = by_rid.get(k)
        if d is None:
            if status == 'horizon':
                raise HarnessError('C05 run reached the virtual horizon with bytes still in flight')
            if status != 'done' or len(delivered) >= n_expected:
                V.add('C05/liveness', 'not-delivered', 'frame for rid %d (stream %d, %d B) never delivered; run status %s'
                      % (k, stream, len(body), status))
            continue
        _, _, reg_stream, hdr, rbody, tname, row0 = d
        if reg_stream != stream or hdr is None or hdr[0] != stream:
            V.add('C05/exact', 'wrong-handler', 'rid %d registered on stream %d got header %r (sent on %d)'
                  % (k, reg_stream, hdr, stream))
        elif hdr[1] != op or rbody != body:
            V.add('C05/exact', 'altered-body', 'rid %d: delivered opcode/body differ from what was sent (%d vs %d bytes)'
                  % (k, len(rbody or b''), len(body)))
        spec = plan['requests'][k]
        if spec['kind'] == 'rows' and tname == 'ResultMessage':
            want = C05Peer.world_payload(k, spec['size'])
            if row0 is None or row0[0] != k or bytes(row0[1] or b'') != want:
                V.add('C05/exact', 'altered-rows', 'rid %d decoded rows differ from sent content' % k)
    if len(delivered) > len(sent_frames):
        V.add('C05/exact', 'spurious-delivery', '%d deliveries for %d sent frames' % (len(delivered), len(sent_frames)))
    # order: delivery order of rids == order in byte stream
    V.check('C05/order')
    order_sent = [f[3] for f in sent_frames if f[3] in by_rid]
    order_del = [d[1] for d in sorted(delivered, key=lambda d: d[0])]
    if order_sent != [k for k in order_del if k in set(order_sent)][:len(order_sent)] and not V.items:
        V.add('C05/order', 'out-of-order', 'stream order %r, delivery order %r' % (order_sent[:12], order_del[:12]))
    # events
    if n_events:
        V.check('C05/events')
        for i, (stream, op, body, tag) in enumerate(sent_events):
            et = tag[2]
            got = [e for e in ev_delivered if e[1] == et]
            sent_same = [f for f in sent_events if f[3][2] == et]
            if len(got) != len(sent_same):
                if status != 'done' or len(got) > len(sent_same):
                    V.add('C05/events', 'event-count', '%s: %d sent, %d delivered to watcher' % (et, len(sent_same), len(got)))
        for et in ('STATUS_CHANGE', 'TOPOLOGY_CHANGE', 'SCHEMA_CHANGE'):
            got = [e[2] for e in ev_delivered if e[1] == et]
            sent_same = [f[3][1] for f in sent_events if f[3][2] == et]
            for g, idx in zip(got, sent_same):
                if et == 'SCHEMA_CHANGE':
                    ok = g.get('keyspace') == 'ks%d' % idx and g.get('table') == 'tbl%d' % idx
                else:
                    a = g.get('address')
                    exp = ('10.1.%d.%d' if et == 'STATUS_CHANGE' else '10.2.%d.%d') % (idx // 250, idx % 250 + 1)
                    ok = a is not None and a[0] == exp
                if not ok:
                    V.add('C05/events', 'event-content', '%s event %d delivered as %r' % (et, idx, g))
    V.check('C05/clean')
    if conn is not None and (conn.is_defunct or conn.is_closed):
        V.add('C05/clean', 'defunct', 'connection defunct/closed on a fault-free stream: %r' % (conn.last_error,))
    if sim.crashes:
        V.add('C05/clean', 'thread-exception', 'thread %s died: %s' % (sim.crashes[0][0], sim.crashes[0][1]))
    fc = w.net.fault_counts
    split = fc.get('split_delivery', 0) + fc.get('one_byte_chunks', 0)
    if split:
        sim.probe('split_delivery', split)
    if n_events:
        sim.probe('event_frames', n_events)
    if plan['in_buffer_size'] < 64:
        sim.probe('tiny_read_buffer')
    if sim.probes.get('multi_frame_write') or (len(sent_frames) >= 2 and plan['lat'][1] == 0.0):
        sim.probe('multi_frame_read')
    if any(r['kind'] == 'ready' for r in plan['requests']):
        sim.probe('empty_body_frame')
    if any(r['size'] >= 4096 for r in plan['requests']):
        sim.probe('frame_larger_than_buffer')
    nontrivial = split > 0 and len(delivered) >= 2
    return {'violations': V.items, 'rules_checked': V.checked, 'nontrivial': bool(nontrivial),
            'faults': dict(fc), 'summary': {'status': status, 'delivered': len(delivered), 'events': len(ev_delivered)},
            'stratum': 'v%d' % version}
