"""C09 Multiplexed requests never receive another request's response (W-FULL, one node)."""
from dsim import seams
from dsim.core import HarnessError
from props.common import gen_strategy, quiet_logging, Violations
from worlds.full import FullWorld, default_cluster_spec, ReqObs

ID = 'C09'
TIERS = {'quick': {'runs': 12000, 'budget_s': 55, 'wall_cap': 90, 'block': 60},
         'thorough': {'runs': 400000, 'budget_s': 840, 'wall_cap': 90, 'block': 60}}
SHRINK_LISTS = ['requests']
COVERAGE_RULE = ('one run = real Cluster/Session with one node and one pooled connection (protocol 3-5), knob '
                 'max_in_flight in {2,3,4,8,16,310}, 1-4 user threads issuing 5-40 execute_async with client timeouts, '
                 'server script per request (answer after a delay possibly longer than the timeout = late response, or '
                 'never), optional RST; line-level pre-emption in send_msg/process_msg/get_request_id/_on_timeout/'
                 'borrow/return; distinct = event-log digest; non-trivial = at least one request timed out client-side '
                 'while others were outstanding on the same connection')
RULES = {
    'C09/unique-stream': 'a request never arrives on a (connection, stream) that is still outstanding at the node (received, not answered - dropped ones included)',
    'C09/own-response': 'rows delivered to a request carry that request id',
    'C09/max-id': '0 <= stream id <= max_request_id',
    'C09/delivered': 'a response the node sent for a request on a connection no fault touched is delivered to that request: the request is '
                     'not reported timed out more than 0.3 s after the node answered it',
    'C09/drain': 'once every received request was answered (no fault): in_flight == 0, no orphaned ids, request_ids = 0..highest without duplicates',
}
WORLD_INFO = {'real': ['Cluster, Session, ControlConnection, ResponseFuture (_on_timeout, _query, _set_result)', 'HostConnection',
                       'Connection/LibevConnection/LibevLoop/TimerManager'],
              'stub': ['libev C binding', 'sockets/TCP', 'ThreadPoolExecutor (SimExecutor)', 'fake Cassandra node (independent codec)']}
ASSUMPTIONS = ['orphaned_threshold is set high: connection replacement is C13']
REQUIRED_PROBES = ['late_response_after_timeout', 'client_timeout', 'id_space_grew', 'dropped_request', 'same_host_retry',
                   'retried_request_timed_out', 'send_refused_busy', 'ctl_wait_timed_out_polls', 'ctl_connection_survived', 'one_byte_stream_ids', 'prepared_statement_evicted']


def prepare():
    seams.install_static()
    quiet_logging()


def gen_plan(rng, tier):
    k = rng.random()
    if k < 0.2:
        return gen_plan_retry(rng)
    if k < 0.3:
        return gen_plan_busy(rng)
    if k < 0.4:
        return gen_plan_ctl(rng)
    if k < 0.47:
        return gen_plan_legacy(rng)
    if k < 0.55:
        return gen_plan_reprep(rng)
    return gen_plan_pool(rng)


def gen_plan_reprep(rng):
    """Bound statements whose node forgets the statement: EXECUTE -> UNPREPARED -> PREPARE -> EXECUTE, each on a stream of its own, with
    client timeouts that fire anywhere in that chain."""
    p = gen_plan_pool(rng, mif=rng.choice([4, 8, 16]))
    p['mode'] = 'reprep'
    p['fault'] = None
    p['version'] = rng.choice([4, 4, 5])
    p['slow'] = rng.choice([1, 3, 10])
    for r in p['requests']:
        r['timeout'] = rng.choice([0.004, 0.01, 0.03, 0.1, 2.0])
        r['script'] = {'kind': 'ok', 'delay': rng.choice([0.001, 0.005, 0.03])}
        r['evict'] = rng.random() < 0.6
        r['think'] = rng.choice([0, 0.001, 0.01])
    if rng.random() < 0.35:
        # the executor thread that continues a request after its re-PREPARE was answered is descheduled right at the start of
        # _execute_after_prepare: the PREPARE's stream id is already free (and soon someone else's) while the timeout can still fire
        p['deep_stalls'] = [['_execute_after_prepare', rng.choice([5, 6, 7, 8]), rng.choice([0.02, 0.05, 0.2]), 12]]
        p['line_p'] = p.get('line_p') or 0.01
    return p


def gen_plan_legacy(rng):
    """Protocol 1/2: one-byte stream ids, at most 128 of them (0..127) however large max_in_flight is; one connection per host."""
    p = gen_plan_pool(rng, mif=rng.choice([200, 310]))
    p['mode'] = 'legacy'
    p['version'] = rng.choice([1, 2])
    for nd in p['cluster']['nodes']:
        nd['release'] = '2.1.15'
        nd['versions'] = [1, 2, 3]
    p['pool_v2'] = {'core': 1, 'max': 1, 'max_req': 127, 'min_req': 0}
    n = rng.choice([20, 135, 150])
    nthreads = p['nthreads']
    p['requests'] = [{'thread': rng.randrange(nthreads), 'timeout': rng.choice([2.0, 4.0]),
                      'script': {'kind': 'ok', 'delay': rng.choice([0.2, 0.6, 1.0])}, 'think': 0} for _ in range(n)]
    p['fault'] = None
    return p


ERRS = ['read_timeout', 'write_timeout', 'unavailable', 'overloaded', 'server_error']


def gen_plan_retry(rng):
    """Same-host retries: an error reply frees the stream, the retry takes another one; the request may then time out."""
    p = gen_plan_pool(rng, mif=rng.choice([2, 3, 4, 8]))
    p['mode'] = 'retry'
    p['fault'] = None
    for r in p['requests']:
        if rng.random() < 0.45:
            pre = [{'kind': 'error', 'error': rng.choice(ERRS), 'delay': rng.choice([0.001, 0.005, 0.02])}
                   for _ in range(rng.choice([1, 1, 2]))]
            r['script_seq'] = pre + [dict(r['script'])]
        else:
            r['timeout'] = rng.choice([1.0, 2.0, 3.0])
            r['script'] = {'kind': 'ok', 'delay': rng.choice([0.01, 0.2, 0.5, 0.9])}
    return p


def gen_plan_busy(rng):
    """Socket back-pressure: the node stops reading for a while, the send buffer fills up, sends are refused as busy."""
    p = gen_plan_pool(rng, mif=rng.choice([4, 8, 16]))
    p['mode'] = 'busy'
    p['fault'] = None
    p['busy'] = {'at': rng.choice([0.0, 0.01, 0.05]), 'len': rng.choice([0.05, 0.2, 0.5]), 'room': rng.choice([0, 20, 100])}
    for r in p['requests']:
        if r['script']['kind'] == 'drop':
            r['script'] = {'kind': 'ok', 'delay': 0.01}
        r['think'] = rng.choice([0.001, 0.01, 0.03])
    return p


def gen_plan_pool(rng, mif=None):
    version = rng.choice([3, 4, 4, 5])
    if mif is None:
        mif = 310 if rng.random() < 0.08 else rng.choice([2, 3, 4, 8, 16])
    nthreads = rng.choice([1, 2, 3, 4])
    n = rng.randrange(3, 31) if mif != 310 else rng.choice([305, 320])
    drain = rng.random() < 0.6
    reqs = []
    for i in range(n):
        timeout = rng.choice([0.05, 0.1, 0.3, 1.0, 2.0])
        k = rng.random()
        if k < 0.5:
            sc = {'kind': 'ok', 'delay': rng.choice([0.001, 0.01, 0.04])}
        elif k < 0.85 or drain:
            sc = {'kind': 'ok', 'delay': rng.choice([0.06, 0.12, 0.4, 1.5])}
        else:
            sc = {'kind': 'drop'}
        reqs.append({'thread': rng.randrange(nthreads), 'timeout': timeout, 'script': sc,
                     'think': rng.choice([0, 0, 0.001, 0.02])})
    if mif == 310:
        # burst: everything outstanding at once so that get_request_id has to grow past the initial 300 ids
        for r in reqs:
            r.update(timeout=rng.choice([1.0, 3.0]), script={'kind': 'ok', 'delay': rng.choice([0.5, 1.5, 2.0])}, think=0)
    fault = None
    if not drain and rng.random() < 0.3:
        fault = {'kind': 'rst', 'at': rng.choice([0.01, 0.05, 0.2, 0.5])}
    spec = default_cluster_spec(1, versions=(3, 4, 5))
    return {'cluster': spec, 'version': version, 'knobs': {'max_in_flight': mif, 'orphaned_threshold': 100000}, 'mode': 'pool',
            'nthreads': nthreads, 'requests': reqs, 'fault': fault, 'strategy': gen_strategy(rng),
            'line_p': rng.choice([0, 0, 0.005, 0.05]), 'points': rng.choice([0, 2, 4]),
            'time_jump_p': rng.choice([0, 0, 0.05])}


def check_drained(V, conn, what):
    """C09/drain on one live connection whose requests have all been answered."""
    if conn.is_closed or conn.is_defunct:
        return
    ids = list(conn.request_ids)
    if conn.in_flight != 0:
        V.add('C09/drain', 'in-flight-nonzero', 'after every request was answered in_flight=%d (orphaned=%r)'
              % (conn.in_flight, sorted(conn.orphaned_request_ids)[:5]))
    elif conn.orphaned_request_ids:
        V.add('C09/drain', 'orphans-left', 'orphaned ids left: %r' % sorted(conn.orphaned_request_ids)[:8])
    elif len(set(ids)) != len(ids):
        V.add('C09/drain', 'duplicate-free-ids', 'free id list of the %s has duplicates: %r' %
              (what, sorted(x for x in set(ids) if ids.count(x) > 1)[:8]))
    elif set(ids) != set(range(conn.highest_request_id + 1)):
        V.add('C09/drain', 'ids-missing', 'free ids %d of %d (%s)' % (len(ids), conn.highest_request_id + 1, what))
    elif conn._requests:
        V.add('C09/drain', 'handlers-left', '%d handler(s) still registered on the %s: streams %r'
              % (len(conn._requests), what, sorted(conn._requests)[:8]))


def gen_plan_ctl(rng):
    """Control connection: blocking wait_for_responses() calls that time out while the node answers late."""
    n = rng.choice([2, 3])
    spec = default_cluster_spec(n, versions=(3, 4))
    return {'cluster': spec, 'version': rng.choice([3, 4]), 'mode': 'ctl', 'knobs': {}, 'requests': [], 'nthreads': 1, 'fault': None,
            'W': rng.choice([0.6, 1.0, 2.0]), 'ctl_timeout': rng.choice([0.1, 0.2, 0.4]), 'slow_lat': rng.choice([[0.05, 0.3], [0.15, 0.6], [0.3, 0.9]]),
            'rounds': rng.choice([1, 2, 3]), 'after': rng.choice([1, 3, 8]),
            'strategy': gen_strategy(rng), 'line_p': 0, 'points': 0, 'time_jump_p': rng.choice([0, 0, 0.05])}


def run_ctl(plan, seed, choices=None):
    import uuid
    w = FullWorld(plan, seed, choices, horizon=200.0, step_cap=3000000)
    sim, fc = w.sim, w.fc
    V = Violations()
    st = {'timeouts': 0, 'connect_error': None, 'ctl': None, 'outcomes': []}
    fast = fc.sys_lat

    def main():
        try:
            cluster = w.make_cluster(protocol_version=plan['version'], idle_heartbeat_interval=0, control_connection_timeout=plan['ctl_timeout'],
                                     max_schema_agreement_wait=plan['W'], schema_event_refresh_window=-1, topology_event_refresh_window=-1,
                                     status_event_refresh_window=-1)
            fc.sys_lat = (0.0005, 0.004)
            session = cluster.connect(wait_for_all_pools=True)
        except Exception as e:
            st['connect_error'] = repr(e)
            return
        w.session = session
        st['ctl'] = cluster.control_connection._connection
        for k in range(plan['rounds']):
            # node 1 lags behind: every poll disagrees, so the wait keeps polling until W is used up
            fc.nodes[1].schema_version = uuid.UUID(int=500 + k)
            fc.sys_lat = tuple(plan['slow_lat'])
            try:
                cluster.refresh_schema_metadata(max_schema_agreement_wait=plan['W'])
                st['outcomes'].append('ok')
            except Exception as e:
                st['outcomes'].append(type(e).__name__)
            fc.sys_lat = fast
            fc.nodes[1].schema_version = fc.nodes[0].schema_version
            w.sleep(1.5)                    # the late answers arrive
        for k in range(plan['after']):
            try:
                cluster.refresh_schema_metadata(max_schema_agreement_wait=plan['W'])
            except Exception as e:
                st['outcomes'].append('after:' + type(e).__name__)
            w.sleep(0.05)
        st['ctl_end'] = cluster.control_connection._connection

    w.spawn(main, 'main')
    status = w.run_until_users_done()
    if st['connect_error']:
        raise HarnessError('connect failed: %s' % st['connect_error'])
    w.settle(3.0)
    w.drain()
    from props.common import LOGS
    timeouts = sum(1 for x in LOGS if 'schema agreement check' in x[2] and 'Timed out' in x[2])
    polls = sum(1 for e in fc.nodes[0].log if e.get('sys') == 'system.local')
    if st['outcomes']:
        sim.probe('ctl_wait_rounds', len(st['outcomes']))
    same = st['ctl'] is not None and st['ctl'] is st.get('ctl_end')
    if same:
        sim.probe('ctl_connection_survived')
    V.check('C09/unique-stream', sum(len(n.log) for n in fc.nodes))
    if fc.stream_reuse:
        seq, nidx, label, s_, old, new = fc.stream_reuse[0]
        V.add('C09/unique-stream', 'stream-reused-while-outstanding', 'a request arrived on %s stream %d while %r was still outstanding there' % (label, s_, old))
    late = 0
    if status == 'done':
        V.check('C09/drain')
        for c in list(seams.ALL_CONNS):
            if c.is_closed or c.is_defunct:
                continue
            if getattr(c, 'is_control_connection', False):
                check_drained(V, c, 'control connection')
                late = max(late, 1 if c.highest_request_id >= 0 else 0)
    for cr in sim.crashes:
        V.add('C09/drain', 'thread-exception', 'thread %s died: %s' % (cr[0], cr[1]))
    nt = any(o != 'ok' for o in st['outcomes']) and same
    if nt:
        sim.probe('ctl_wait_timed_out_polls')
    return {'violations': V.items, 'rules_checked': V.checked, 'nontrivial': bool(nt),
            'faults': dict(w.net.fault_counts), 'states': [w.abstract_state()],
            'summary': {'status': status, 'outcomes': st['outcomes'], 'polls': polls, 'same_conn': same}, 'stratum': 'ctl'}


def run_plan(plan, seed, choices=None):
    if plan.get('mode') == 'ctl':
        return run_ctl(plan, seed, choices)
    w = FullWorld(plan, seed, choices, horizon=120.0, step_cap=2000000)
    sim = w.sim
    V = Violations()
    ccl, cconn, cpool = w.ccl, w.cconn, w.cpool
    RF = ccl.ResponseFuture
    if plan['line_p'] or plan['points'] or plan.get('deep_stalls'):
        sim.enable_line_preemption([cconn.Connection.send_msg, cconn.Connection.process_msg, cconn.Connection.get_request_id,
                                    RF._on_timeout, RF._query, RF._set_result, RF._execute_after_prepare, cpool.HostConnection.borrow_connection,
                                    cpool.HostConnection.return_connection],
                                   p=plan['line_p'], points=plan['points'], est_lines=60 * len(plan['requests']))
    for i, r in enumerate(plan['requests']):
        w.fc.scripts[i] = [dict(b) for b in r['script_seq']] if r.get('script_seq') else [dict(r['script'])]
    mode = plan.get('mode', 'pool')
    obs = {}

    class AlwaysRetry(w.cpol.RetryPolicy):
        """RETRY on the same host for every server error (the node is the only host)."""

        def on_read_timeout(self, *a, **k):
            return (self.RETRY, None)

        def on_write_timeout(self, *a, **k):
            return (self.RETRY, None)

        def on_unavailable(self, *a, **k):
            return (self.RETRY, None)

        def on_request_error(self, *a, **k):
            return (self.RETRY, None)
    st = {'ready': False, 'done': 0, 'conn': None, 'connect_error': None}

    def main():
        try:
            cluster = w.make_cluster(protocol_version=plan['version'], idle_heartbeat_interval=0,
                                     profile=({'retry': AlwaysRetry()} if mode == 'retry' else None))
            if plan.get('pool_v2'):
                L = w.cpol.HostDistance.LOCAL
                cluster.set_min_requests_per_connection(L, plan['pool_v2']['min_req'])
                cluster.set_max_requests_per_connection(L, plan['pool_v2']['max_req'])
                cluster.set_max_connections_per_host(L, plan['pool_v2']['max'])
                cluster.set_core_connections_per_host(L, plan['pool_v2']['core'])
                sim.probe('one_byte_stream_ids')
            session = cluster.connect(wait_for_all_pools=True)
        except Exception as e:
            st['connect_error'] = repr(e)
            return
        w.session = session
        pools = list(session._pools.values())
        if pools and hasattr(pools[0], '_connection'):
            st['conn'] = pools[0]._connection
        else:
            cs = list(getattr(pools[0], '_connections', [])) if pools else []        # HostConnectionPool (protocol 1/2)
            st['conn'] = cs[0] if cs else None
        if plan['fault']:
            sim.at(plan['fault']['at'], lambda: w.fc.rst_conns(0, 'pool'), 'fault rst pool conns')
        if mode == 'reprep':
            st['ps'] = session.prepare("SELECT * FROM ks1.t WHERE k=? /*stmt*/")
            w.net.slow[w.fc.nodes[0].addr] = plan.get('slow', 1)
        if mode == 'busy':
            b = plan['busy']

            def choke():
                for nc in w.fc.nodes[0].conns:
                    if not nc.events and not nc.closed:
                        nc.conn.sock.room_left = b['room']
                        nc.conn.sock.force_eagain = True
                        st.setdefault('choked', []).append(nc.conn.sock)
                sim.rec('fault', 'send buffer full')
                w.net.count('send_buffer_full')

            def unchoke():
                for sk in st.get('choked', []):
                    sk.force_eagain = False
                    sk._notify()
                sim.rec('fault', 'send buffer drained')
            sim.at(b['at'], choke, 'choke')
            sim.at(b['at'] + b['len'], unchoke, 'unchoke')
        ts = [w.spawn(user, 'user%d' % t, t) for t in range(plan['nthreads'])]
        for t in ts:
            t.join()

    def user(tid):
        mine = []
        for i, r in enumerate(plan['requests']):
            if r['thread'] != tid:
                continue
            o = obs[i] = ReqObs(w, i)
            try:
                if mode == 'reprep':
                    if r.get('evict'):
                        w.fc.nodes[0].prepared.clear()        # the node restarted / evicted its prepared-statement cache
                        sim.probe('prepared_statement_evicted')
                    o.start(w.session, st['ps'].bind((i,)), timeout=r['timeout'])
                else:
                    o.start(w.session, "SELECT * FROM ks1.t /*rid=%d*/" % i, timeout=r['timeout'])
                mine.append(o)
            except Exception as e:
                o.result = ('err', type(e).__name__, str(e)[:160])
            if r['think']:
                w.sleep(r['think'])
        for o in mine:
            o.wait()
        st['done'] += 1

    w.spawn(main, 'main')
    status = w.run_until_users_done()
    if st['connect_error']:
        raise HarnessError('connect failed: %s' % st['connect_error'])
    w.settle(3.0 + sum(d_[2] * d_[3] for d_ in plan.get('deep_stalls', [])))       # (stalled executor tasks still owe their in-flight slots)
    w.wait_executor_idle()      # tasks blocked in borrow_connection(2 s) behind the tasks that would free a stream id drain slowly
    w.settle(0.5)
    w.drain()
    node = w.fc.nodes[0]
    max_id = min(plan['knobs']['max_in_flight'] - 1, 2 ** 15 - 1) if plan['version'] >= 3 else min(plan['knobs']['max_in_flight'], 127)
    # ---- oracle
    for e in node.log:
        if 'rid' in e and e.get('kind'):
            V.check('C09/max-id')
            if not (0 <= e['stream'] <= max_id):
                V.add('C09/max-id', 'stream-out-of-range', 'rid %s sent on stream %d, max_request_id %d' % (e['rid'], e['stream'], max_id))
    V.check('C09/unique-stream', len(node.log))
    if w.fc.stream_reuse:
        seq, nidx, label, s, old, new = w.fc.stream_reuse[0]
        V.add('C09/unique-stream', 'stream-reused-while-outstanding',
              'request rid=%s arrived on %s stream %d while rid=%s was still outstanding there (never answered yet)' % (new, label, s, old))
    timeouts = 0
    for i, o in sorted(obs.items()):
        for c in o.calls:
            if c[2] == 'cb':
                V.check('C09/own-response')
                rows = c[3]
                if rows and any(r[0] != i for r in rows):
                    V.add('C09/own-response', 'foreign-rows', 'request %d received rows %r' % (i, rows[:3]))
            elif c[3][0] == 'OperationTimedOut':
                timeouts += 1
        if o.result and o.result[0] == 'ok' and o.result[1] and any(r[0] != i for r in o.result[1]):
            V.add('C09/own-response', 'foreign-rows-result', 'result() of request %d returned rows %r' % (i, o.result[1][:3]))
    dropped = sum(1 for r in plan['requests'] if r['script']['kind'] == 'drop')
    late = 0
    for rp in node.replies:
        o = obs.get(rp['rid'])
        if o and any(c[2] == 'eb' and c[3][0] == 'OperationTimedOut' and c[0] < rp['seq'] for c in o.calls):
            late += 1
    if timeouts:
        sim.probe('client_timeout', timeouts)
    if late:
        sim.probe('late_response_after_timeout', late)
    if dropped:
        sim.probe('dropped_request', dropped)
    conn = st['conn']
    if conn is not None and conn.highest_request_id >= 300:
        sim.probe('id_space_grew')
    dropped += sum(1 for r in plan['requests'] for b in (r.get('script_seq') or []) if b['kind'] == 'drop' and b is not r.get('script'))
    # ---- delivered: a response the node sent on a healthy connection reaches the request it belongs to
    if not plan['fault']:
        final_ok = {}
        for rp in node.replies:
            if rp['kind'] == 'ok':
                final_ok[rp['rid']] = rp
        for i, o in sorted(obs.items()):
            rp = final_ok.get(i)
            if rp is None or not o.calls:
                continue
            V.check('C09/delivered')
            c = o.calls[0]
            if c[2] == 'eb' and c[3][0] == 'OperationTimedOut' and c[1] - rp['t'] > 0.3:
                V.add('C09/delivered', 'answered-request-timed-out',
                      'the node answered request %d on %s stream %d at t=%.3f (no connection fault), yet the request was timed out at t=%.3f '
                      'without ever receiving that response' % (i, rp['conn'], rp['stream'], rp['t'], c[1]))
    busy_refused = sum(1 for o in obs.values() if o.calls and o.calls[0][2] == 'eb' and 'overloaded' in str(o.calls[0][3][1]))
    busy_refused += sum(1 for o in obs.values() if o.calls and o.calls[0][2] == 'eb' and o.calls[0][3][0] == 'NoHostAvailable' and mode == 'busy')
    if busy_refused:
        sim.probe('send_refused_busy', busy_refused)
    if mode == 'retry':
        n_retry = sum(1 for e in node.log if e.get('kind') and e.get('attempt', 0) > 0)
        if n_retry:
            sim.probe('same_host_retry', n_retry)
        if any(e.get('attempt', 0) > 0 and any(c[2] == 'eb' and c[3][0] == 'OperationTimedOut' for c in obs[e['rid']].calls)
               for e in node.log if e.get('kind') and e.get('rid') in obs):
            sim.probe('retried_request_timed_out')
    fault_free = not plan['fault'] and not dropped
    if fault_free and conn is not None and status == 'done':
        V.check('C09/drain')
        answered = len(node.replies) == sum(1 for e in node.log if e.get('kind'))
        if answered:
            check_drained(V, conn, 'pooled connection')
    for cr in sim.crashes:
        V.add('C09/drain', 'thread-exception', 'thread %s died: %s' % (cr[0], cr[1]))
    nontrivial = timeouts > 0 and len(plan['requests']) > 1
    return {'violations': V.items, 'rules_checked': V.checked, 'nontrivial': bool(nontrivial),
            'faults': dict(w.net.fault_counts), 'states': [w.abstract_state()],
            'summary': {'status': status, 'timeouts': timeouts, 'late': late, 'requests': len(obs)},
            'stratum': mode + ('-drain' if fault_free else '-faulted')}
