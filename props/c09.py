"""C09 Multiplexed requests never receive another request's response (W-FULL, one node)."""
from dsim import seams
from dsim.core import HarnessError
from props.common import gen_strategy, quiet_logging, Violations
from worlds.full import FullWorld, default_cluster_spec, ReqObs

ID = 'C09'
TIERS = {'quick': {'runs': 4000, 'budget_s': 55, 'wall_cap': 90, 'block': 60},
         'thorough': {'runs': 400000, 'budget_s': 840, 'wall_cap': 90, 'block': 60}}
SHRINK_LISTS = ['requests']
COVERAGE_RULE = ('one run = real Cluster/Session with one node and one pooled connection (protocol 3-5), knob '
                 'max_in_flight in {2,3,4,8,16,310}, 1-4 user threads issuing 5-40 execute_async with client timeouts, '
                 'server script per request (answer after a delay possibly longer than the timeout = late response, or '
                 'never), optional RST; line-level pre-emption in send_msg/process_msg/get_request_id/_on_timeout/'
                 'borrow/return; distinct = event-log digest; non-trivial = at least one request timed out client-side '
                 'while others were outstanding on the same connection')
RULES = {
    'C09/unique-stream': 'a request never arrives on a (connection, stream) that is still outstanding at the node (received, not answered - dropped ones included)',
    'C09/own-response': 'rows delivered to a request carry that request id',
    'C09/max-id': '0 <= stream id <= max_request_id',
    'C09/drain': 'once every received request was answered (no fault): in_flight == 0, no orphaned ids, request_ids = 0..highest without duplicates',
}
WORLD_INFO = {'real': ['Cluster, Session, ControlConnection, ResponseFuture (_on_timeout, _query, _set_result)', 'HostConnection',
                       'Connection/LibevConnection/LibevLoop/TimerManager'],
              'stub': ['libev C binding', 'sockets/TCP', 'ThreadPoolExecutor (SimExecutor)', 'fake Cassandra node (independent codec)']}
ASSUMPTIONS = ['orphaned_threshold is set high: connection replacement is C13']
REQUIRED_PROBES = ['late_response_after_timeout', 'client_timeout', 'id_space_grew', 'dropped_request']


def prepare():
    seams.install_static()
    quiet_logging()


def gen_plan(rng, tier):
    version = rng.choice([3, 4, 4, 5])
    mif = 310 if rng.random() < 0.08 else rng.choice([2, 3, 4, 8, 16])
    nthreads = rng.choice([1, 2, 3, 4])
    n = rng.randrange(3, 31) if mif != 310 else rng.choice([305, 320])
    drain = rng.random() < 0.6
    reqs = []
    for i in range(n):
        timeout = rng.choice([0.05, 0.1, 0.3, 1.0, 2.0])
        k = rng.random()
        if k < 0.5:
            sc = {'kind': 'ok', 'delay': rng.choice([0.001, 0.01, 0.04])}
        elif k < 0.85 or drain:
            sc = {'kind': 'ok', 'delay': rng.choice([0.06, 0.12, 0.4, 1.5])}
        else:
            sc = {'kind': 'drop'}
        reqs.append({'thread': rng.randrange(nthreads), 'timeout': timeout, 'script': sc,
                     'think': rng.choice([0, 0, 0.001, 0.02])})
    if mif == 310:
        # burst: everything outstanding at once so that get_request_id has to grow past the initial 300 ids
        for r in reqs:
            r.update(timeout=rng.choice([1.0, 3.0]), script={'kind': 'ok', 'delay': rng.choice([0.5, 1.5, 2.0])}, think=0)
    fault = None
    if not drain and rng.random() < 0.3:
        fault = {'kind': 'rst', 'at': rng.choice([0.01, 0.05, 0.2, 0.5])}
    spec = default_cluster_spec(1, versions=(3, 4, 5))
    return {'cluster': spec, 'version': version, 'knobs': {'max_in_flight': mif, 'orphaned_threshold': 100000},
            'nthreads': nthreads, 'requests': reqs, 'fault': fault, 'strategy': gen_strategy(rng),
            'line_p': rng.choice([0, 0, 0.005, 0.05]), 'points': rng.choice([0, 2, 4]),
            'time_jump_p': rng.choice([0, 0, 0.05])}


def run_plan(plan, seed, choices=None):
    w = FullWorld(plan, seed, choices, horizon=120.0, step_cap=2000000)
    sim = w.sim
    V = Violations()
    ccl, cconn, cpool = w.ccl, w.cconn, w.cpool
    RF = ccl.ResponseFuture
    if plan['line_p'] or plan['points']:
        sim.enable_line_preemption([cconn.Connection.send_msg, cconn.Connection.process_msg, cconn.Connection.get_request_id,
                                    RF._on_timeout, RF._query, RF._set_result, cpool.HostConnection.borrow_connection,
                                    cpool.HostConnection.return_connection],
                                   p=plan['line_p'], points=plan['points'], est_lines=60 * len(plan['requests']))
    for i, r in enumerate(plan['requests']):
        w.fc.scripts[i] = [dict(r['script'])]
    obs = {}
    st = {'ready': False, 'done': 0, 'conn': None, 'connect_error': None}

    def main():
        try:
            cluster = w.make_cluster(protocol_version=plan['version'], idle_heartbeat_interval=0)
            session = cluster.connect(wait_for_all_pools=True)
        except Exception as e:
            st['connect_error'] = repr(e)
            return
        w.session = session
        pools = list(session._pools.values())
        st['conn'] = pools[0]._connection if pools else None
        if plan['fault']:
            sim.at(plan['fault']['at'], lambda: w.fc.rst_conns(0, 'pool'), 'fault rst pool conns')
        ts = [w.spawn(user, 'user%d' % t, t) for t in range(plan['nthreads'])]
        for t in ts:
            t.join()

    def user(tid):
        mine = []
        for i, r in enumerate(plan['requests']):
            if r['thread'] != tid:
                continue
            o = obs[i] = ReqObs(w, i)
            try:
                o.start(w.session, "SELECT * FROM ks1.t /*rid=%d*/" % i, timeout=r['timeout'])
                mine.append(o)
            except Exception as e:
                o.result = ('err', type(e).__name__, str(e)[:160])
            if r['think']:
                w.sleep(r['think'])
        for o in mine:
            o.wait()
        st['done'] += 1

    w.spawn(main, 'main')
    status = w.run_until_users_done()
    if st['connect_error']:
        raise HarnessError('connect failed: %s' % st['connect_error'])
    w.settle(3.0)
    w.drain()
    node = w.fc.nodes[0]
    max_id = min(plan['knobs']['max_in_flight'] - 1, 2 ** 15 - 1)
    # ---- oracle
    for e in node.log:
        if 'rid' in e and e.get('kind'):
            V.check('C09/max-id')
            if not (0 <= e['stream'] <= max_id):
                V.add('C09/max-id', 'stream-out-of-range', 'rid %s sent on stream %d, max_request_id %d' % (e['rid'], e['stream'], max_id))
    V.check('C09/unique-stream', len(node.log))
    if w.fc.stream_reuse:
        seq, nidx, label, s, old, new = w.fc.stream_reuse[0]
        V.add('C09/unique-stream', 'stream-reused-while-outstanding',
              'request rid=%s arrived on %s stream %d while rid=%s was still outstanding there (never answered yet)' % (new, label, s, old))
    timeouts = 0
    for i, o in sorted(obs.items()):
        for c in o.calls:
            if c[2] == 'cb':
                V.check('C09/own-response')
                rows = c[3]
                if rows and any(r[0] != i for r in rows):
                    V.add('C09/own-response', 'foreign-rows', 'request %d received rows %r' % (i, rows[:3]))
            elif c[3][0] == 'OperationTimedOut':
                timeouts += 1
        if o.result and o.result[0] == 'ok' and o.result[1] and any(r[0] != i for r in o.result[1]):
            V.add('C09/own-response', 'foreign-rows-result', 'result() of request %d returned rows %r' % (i, o.result[1][:3]))
    dropped = sum(1 for r in plan['requests'] if r['script']['kind'] == 'drop')
    late = 0
    for rp in node.replies:
        o = obs.get(rp['rid'])
        if o and any(c[2] == 'eb' and c[3][0] == 'OperationTimedOut' and c[0] < rp['seq'] for c in o.calls):
            late += 1
    if timeouts:
        sim.probe('client_timeout', timeouts)
    if late:
        sim.probe('late_response_after_timeout', late)
    if dropped:
        sim.probe('dropped_request', dropped)
    conn = st['conn']
    if conn is not None and conn.highest_request_id >= 300:
        sim.probe('id_space_grew')
    fault_free = not plan['fault'] and not dropped
    if fault_free and conn is not None and status == 'done':
        V.check('C09/drain')
        answered = len(node.replies) == sum(1 for e in node.log if e.get('kind'))
        if answered and not conn.is_closed and not conn.is_defunct:
            ids = list(conn.request_ids)
            if conn.in_flight != 0:
                V.add('C09/drain', 'in-flight-nonzero', 'after every request was answered in_flight=%d (orphaned=%r)'
                      % (conn.in_flight, sorted(conn.orphaned_request_ids)[:5]))
            elif conn.orphaned_request_ids:
                V.add('C09/drain', 'orphans-left', 'orphaned ids left: %r' % sorted(conn.orphaned_request_ids)[:8])
            elif len(set(ids)) != len(ids):
                V.add('C09/drain', 'duplicate-free-ids', 'free id list has duplicates: %r' %
                      sorted(x for x in set(ids) if ids.count(x) > 1)[:8])
            elif set(ids) != set(range(conn.highest_request_id + 1)):
                V.add('C09/drain', 'ids-missing', 'free ids %d of %d' % (len(ids), conn.highest_request_id + 1))
    for cr in sim.crashes:
        V.add('C09/drain', 'thread-exception', 'thread %s died: %s' % (cr[0], cr[1]))
    nontrivial = timeouts > 0 and len(plan['requests']) > 1
    return {'violations': V.items, 'rules_checked': V.checked, 'nontrivial': bool(nontrivial),
            'faults': dict(w.net.fault_counts), 'states': [w.abstract_state()],
            'summary': {'status': status, 'timeouts': timeouts, 'late': late, 'requests': len(obs)},
            'stratum': 'drain' if fault_free else 'faulted'}
