#!/venv/bin/python
"""Regenerates /verif/MANIFEST.json from the property modules that exist (props/cNN.py with ID)."""
import importlib
import json
import os
import sys

HERE = os.path.dirname(os.path.dirname(os.path.abspath(__file__)))
sys.path.insert(0, HERE)
sys.path.insert(0, os.environ.get('VERIF_REPO', '/repo'))

NA_PURE = {
    'C01': 'pure function of (value, type, protocol version): no schedule, clock, I/O or fault can change its truth; not a simulation target',
    'C02': 'pure byte-level function of its input; needs an independent encoder and input generation, not a simulator',
    'C03': 'encode_message is a pure function of (message, options, version); no schedule/fault dimension',
    'C04': 'decode_message is a pure function of the body bytes; no schedule/fault dimension',
    'C07': 'differential equivalence of two builds over inputs; no schedule/fault dimension (and no compiled build exists in this sandbox)',
    'C08': 'pure function of the key bytes',
    'C23': 'built-in retry policies are pure functions of their argument tuple',
    'C26': 'pure function of (ring, replication settings)',
    'C27': 'pure string functions',
    'C28': 'pure parsing/printing functions',
    'C29': 'pure encoding function of the parameter value',
    'C30': 'pure function of (bind metadata, values, protocol version)',
    'C33': 'single-threaded data structures with no I/O, clock or shared state; operation sequences are inputs, not schedules',
    'C34': 'pure conversions',
    'C35': 'depends only on emitted CQL text and a CQL-semantics interpreter, not on any schedule, clock or fault; model-based input generation is outside this technique family',
    'C36': 'pure per-value conversion',
    'C37': 'pure statement rendering',
    'C38': 'pure encoding',
    'C39': 'pure encode/decode composition',
    'C40': 'pure serializer round trip',
}


def level_note(m):
    """What a clean batch of this check does and does not say: rules judged, real vs stub components, assumptions."""
    rules = '; '.join('%s = %s' % (k, v) for k, v in sorted(getattr(m, 'RULES', {}).items()))
    wi = getattr(m, 'WORLD_INFO', {})
    out = 'Rules: %s. Real driver code: %s. Stubs: %s.' % (rules, '; '.join(wi.get('real', [])), '; '.join(wi.get('stub', [])))
    if getattr(m, 'ASSUMPTIONS', None):
        out += ' Assumptions: %s.' % '; '.join(m.ASSUMPTIONS)
    out += (' Trusted base: dsim primitives, simulated libev/sockets, independent fake-Cassandra codec; pre-emption at synchronisation points '
            'and at source-line granularity only (thread-stall faults at those lines). Sampling, not enumeration: a clean batch is evidence, not proof.')
    return out[:3800]


def main():
    props = [json.loads(l) for l in open(os.path.join(HERE, 'properties.jsonl'))]
    checks = []
    na = []
    for p in props:
        pid = p['id']
        modpath = os.path.join(HERE, 'props', pid.lower() + '.py')
        if pid in NA_PURE:
            na.append({'property_id': pid, 'reason': NA_PURE[pid]})
            continue
        if not os.path.exists(modpath):
            na.append({'property_id': pid, 'reason': 'simulation target (DESIGN.md section 7) but its check is not built yet; not claimed'})
            continue
        m = importlib.import_module('props.' + pid.lower())
        if not getattr(m, 'READY', True):
            na.append({'property_id': pid, 'reason': getattr(m, 'NOT_READY_REASON', 'check under construction; not claimed')})
            continue
        checks.append({
            'property_id': pid,
            'quick_cmd': './check %s --tier quick' % pid,
            'thorough_cmd': './check %s --tier thorough' % pid,
            'evidence_file': 'evidence/%s.json' % pid,
            'replay_cmd_template': './check replay {path}',
            'engine': 'dsim',
            'technique': getattr(m, 'TECHNIQUE', 'deterministic simulation: seeded search over thread schedules and injected faults, history oracles'),
            'level_claimed': {
                'category': 'exploration',
                'text': getattr(m, 'LEVEL_TEXT', 'Seeded search over schedules and fault sequences of the real driver code running under the dsim '
                                                 'simulator; every run is replayable from its seed; a clean batch is evidence, not proof.'),
                'design_ref': 'DESIGN.md section 7, ' + pid,
            },
            'level_note': getattr(m, 'LEVEL_NOTE', None) or level_note(m),
        })
    man = {
        'version': 1,
        'setup_cmd': './check setup',
        'hooks': {
            'guard': 'DATASTAX_PYTHON_DRIVER_VERIF',
            'enable': 'no source hooks exist: all seams are installed from outside (module-name rebinding, sys.modules entry for cassandra.io.libevwrapper, class-attribute knobs); checks import /repo working tree directly via PYTHONPATH',
            'baseline_off_cmd': 'cd /repo && /venv/bin/python -m pytest -ra -q -p no:cacheprovider --timeout=900 --continue-on-collection-errors',
            'source_commits': [],
            'add_only': True,
        },
        'engines': [{
            'name': 'dsim',
            'path': 'dsim/',
            'serves_properties': [c['property_id'] for c in checks],
            'kind_free_text': 'deterministic simulator: baton-scheduled real threads, virtual clock, simulated libev + TCP, fake Cassandra cluster, seeded plan/fault generator, ddmin minimiser, replay files',
        }],
        'checks': checks,
        'not_applicable': na,
        'notes': 'See DESIGN.md. Exit codes: 0 held / 1 VIOLATION (replay verified) / 2 HARNESS-ERROR. Env: VERIF_SEED, VERIF_TIER, VERIF_REPO, VERIF_BUDGET_S, VERIF_JOBS, VERIF_RUNS.',
    }
    with open(os.path.join(HERE, 'MANIFEST.json'), 'w') as f:
        json.dump(man, f, indent=1)
    print('claimed %d, not_applicable %d' % (len(checks), len(na)))


if __name__ == '__main__':
    main()
