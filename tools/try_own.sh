#!/bin/sh
# tools/try_own.sh <budget_s> <jobs> <patch files...> - apply each own/fixrev patch to /repo, run the quick check of its property, revert
B="$1"; J="$2"; shift; shift
cd /verif || exit 2
for F in "$@"; do
  N=$(basename "$F" .patch); P=$(echo "$N" | sed 's/^[a-z]*-\(C[0-9][0-9]\).*/\1/')
  if ! git -C /repo diff --quiet; then echo "/repo dirty"; exit 2; fi
  git -C /repo apply "$(readlink -f "$F")" || { echo "$N: patch does not apply"; continue; }
  OUT=$(VERIF_BUDGET_S=$B VERIF_JOBS=$J timeout $((B*4+200)) ./check $P 2>/dev/null)
  git -C /repo checkout -- .
  V=$(echo "$OUT" | grep "^violation" | head -1 | cut -c1-170)
  RUNS=$(echo "$OUT" | grep "tier=" | sed 's/.*runs=\([0-9]*\).*wall=\([0-9.]*\)s.*/\1 runs \2s/')
  if [ -n "$V" ]; then echo "$N: DETECTED ($RUNS) $V"; else echo "$N: MISSED ($RUNS)"; fi
done
