"""tools/dbglogs.py <replay> <Cnn> <substr>... : driver log records (captured lock-free) of one replayed run."""
import json, sys, os
from dsim import runner, seams, core
prop = runner.load_prop(sys.argv[2]); prop.prepare()
doc = json.load(open(sys.argv[1]))
pid = os.fork()
if pid == 0:
    from dsim.runner import _unrle
    from props import common
    out = prop.run_plan(doc['plan'], doc['seed'], _unrle(doc.get('choices') or []) or None)
    for e in common.LOGS:
        if not sys.argv[3:] or any(k in str(e) for k in sys.argv[3:]): print(e)
    print(out['violations'])
    os._exit(0)
os.waitpid(pid, 0)
