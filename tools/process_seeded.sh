#!/bin/sh
# tools/process_seeded.sh <id> [budget_s] [tier] - verify a sub-agent's delivery under /tmp/seeded_out/<id> (demo passes on HEAD, fails with the patch,
# driver imports) and run the property's check against the patched scratch worktree.
ID="$1"; B="${2:-40}"; T="${3:-quick}"
HERE="$(cd "$(dirname "$0")/.." && pwd)"
D=/tmp/seeded_out/$ID
[ -f $D/patch.diff ] || { echo "$ID: no patch.diff"; exit 2; }
P=$(echo $ID | sed 's/[a-z]_.*//')
$HERE/tools/verify_seeded.sh $D
$HERE/tools/try_wt.sh $D/patch.diff $P $B $T
