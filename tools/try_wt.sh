#!/bin/sh
# tools/try_wt.sh <patch> <Cnn> [budget_s] [tier]  - apply a patch to a scratch worktree of /repo HEAD (not to /repo, so background
# runs on /repo are not disturbed), run the check against it with evidence/replays under the scratch dir, remove the worktree.
P="$(readlink -f "$1")"; ID="$2"; B="${3:-40}"; T="${4:-quick}"
HERE="$(cd "$(dirname "$0")/.." && pwd)"
WT=/tmp/wt/try_$$; OUT=/tmp/wt/out_$$
mkdir -p /tmp/wt $OUT
git -C /repo worktree add -q --detach $WT HEAD || exit 2
if ! git -C $WT apply "$P" 2>/dev/null; then
  R="$(dirname "$P")/patch.rebased.diff"
  if [ -f "$R" ] && git -C $WT apply "$R"; then :; else echo "$(basename $(dirname $P))/$(basename $P): patch does not apply"; git -C /repo worktree remove --force $WT; rm -rf $OUT; exit 2; fi
fi
cd "$HERE"
OUTTXT=$(VERIF_REPO=$WT VERIF_OUT=$OUT VERIF_BUDGET_S=$B VERIF_JOBS=${VERIF_JOBS:-8} timeout $((B*6+200)) ./check "$ID" --tier $T 2>/dev/null); RC=$?
echo "$OUTTXT" | grep -v "^  " | grep "tier=\|^violation\|^VIOLATION\|^HARNESS" | cut -c1-400 | head -4
echo "$(basename $(dirname $P))/$(basename $P) $ID exit=$RC"
git -C /repo worktree remove --force $WT; rm -rf $OUT
exit $RC
