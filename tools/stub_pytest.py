"""Helper (not a deliverable): run selected unit test modules with a stub libevwrapper so
that cassandra.cluster imports on this interpreter."""
import sys, types
root = sys.argv[1]
sys.path.insert(0, root)
import os
os.chdir(root)
m = types.ModuleType('cassandra.io.libevwrapper')
class _Dummy(object):
    def __init__(self, *a, **k): pass
    def __getattr__(self, n): return lambda *a, **k: None
for n in ('Loop', 'Async', 'Prepare', 'Timer', 'IO'):
    setattr(m, n, _Dummy)
sys.modules['cassandra.io.libevwrapper'] = m
import pytest
sys.exit(pytest.main(['-q', '-p', 'no:cacheprovider', '--timeout=900'] + sys.argv[2:]))
