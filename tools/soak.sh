#!/bin/sh
# tools/soak.sh [ids...] - thorough tier of every (or the given) property, one after the other; one summary line each
cd "$(dirname "$0")/.." || exit 2
IDS="$*"
[ -z "$IDS" ] && IDS=$(ls props/c[0-9][0-9].py | sed 's/.*c\([0-9][0-9]\).py/C\1/')
RC=0
for P in $IDS; do
  T0=$(date +%s)
  OUT=$(timeout 2400 ./check $P --tier thorough 2>&1); R=$?
  echo "$OUT" | grep "tier=" | head -1 | cut -c1-170
  echo "$OUT" | grep "^VIOLATION\|^HARNESS\|^violation" | head -4 | cut -c1-600
  echo "$P thorough exit=$R known=$(echo "$OUT" | grep -c '^KNOWN-FINDING') wall=$(( $(date +%s) - T0 ))s"
  [ $R -ne 0 ] && RC=1
done
exit $RC
