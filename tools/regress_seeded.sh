#!/bin/sh
# tools/regress_seeded.sh [budget_s] - every seeded change (seeded/*/) and every own / fix-reversal mutant (mutants/*.patch) against the
# check of its property, each in a scratch worktree (tools/try_wt.sh); one summary line per patch: DETECTED / missed / patch-does-not-apply
B="${1:-45}"
HERE="$(cd "$(dirname "$0")/.." && pwd)"
cd "$HERE" || exit 2
for d in seeded/*/; do
  id=$(basename $d); P=$(echo $id | sed 's/[a-z]_.*//')
  pf=$d/patch.diff; [ -f $d/patch.rebased.diff ] && pf=$d/patch.rebased.diff
  OUT=$(tools/try_wt.sh $pf $P $B 2>&1); rc=$?
  sig=$(echo "$OUT" | grep "^violation" | head -1 | sed 's/.*rule=\([^ ]*\) sig=\([^ ]*\).*/\1 \2/')
  case $rc in 1) echo "$id $P DETECTED $sig";; 0) echo "$id $P missed";; *) echo "$id $P rc=$rc $(echo "$OUT" | tail -1 | cut -c1-120)";; esac
done
for pf in mutants/*.patch; do
  id=$(basename $pf .patch); P=$(echo $id | sed 's/^[a-z]*-\(C[0-9][0-9]\).*/\1/')
  OUT=$(tools/try_wt.sh $pf $P $B 2>&1); rc=$?
  sig=$(echo "$OUT" | grep "^violation" | head -1 | sed 's/.*rule=\([^ ]*\) sig=\([^ ]*\).*/\1 \2/')
  case $rc in 1) echo "$id $P DETECTED $sig";; 0) echo "$id $P missed";; *) echo "$id $P rc=$rc $(echo "$OUT" | tail -1 | cut -c1-120)";; esac
done
