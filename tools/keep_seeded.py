#!/venv/bin/python
"""tools/keep_seeded.py <src dir> <id> <property> <detected-by|MISSED> <needs...>  -> /verif/seeded/<id>/"""
import json, os, shutil, sys
src, sid, prop, det = sys.argv[1:5]
needs = ' '.join(sys.argv[5:])
dst = os.path.join('/verif/seeded', sid)
os.makedirs(dst, exist_ok=True)
for f in ('patch.diff', 'demo.py', 'notes.md'):
    if os.path.exists(os.path.join(src, f)):
        shutil.copy(os.path.join(src, f), os.path.join(dst, f))
meta = {'id': sid, 'property': prop, 'needs_to_manifest': needs,
        'origin': 'independent sub-agent given only the property text and a scratch worktree',
        'confirmed': 'tools/verify_seeded.sh: demo exits 0 on unchanged HEAD and non-zero with patch.diff applied; '
                     'driver still imports; sub-agent reported the baseline suite unchanged (350 passed)',
        'check_result': det,
        'ran': 'tools/try_patch.sh seeded/%s/patch.diff %s 40  (git -C /repo apply; ./check %s; git -C /repo checkout -- .)' % (sid, prop, prop)}
json.dump(meta, open(os.path.join(dst, 'meta.json'), 'w'), indent=1)
print('kept', dst)
