#!/bin/sh
# tools/try_patch.sh <patch> <Cnn> [budget_s]  - apply a patch to /repo, run the quick check, undo.
P="$(readlink -f "$1")"; ID="$2"; B="${3:-60}"
cd /verif || exit 2
if ! git -C /repo diff --quiet; then echo "/repo has uncommitted changes"; exit 2; fi
git -C /repo apply "$P" || { echo "patch does not apply"; exit 2; }
VERIF_BUDGET_S=$B timeout $((B*4+120)) ./check "$ID" 2>/dev/null | grep -v "^  " | tail -4
RC=$?
git -C /repo checkout -- .
git -C /repo status --short | grep -v '^??' | head -3
