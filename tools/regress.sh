#!/bin/sh
# tools/regress.sh [budget_s] [ids...] - quick check of every (or the given) property against the current /repo; prints one line per check
B="${1:-30}"; shift
cd "$(dirname "$0")/.." || exit 2
IDS="$*"
[ -z "$IDS" ] && IDS=$(ls props/c[0-9][0-9].py | sed 's/.*c\([0-9][0-9]\).py/C\1/')
RC=0
for P in $IDS; do
  OUT=$(VERIF_BUDGET_S=$B timeout $((B*4+200)) ./check $P 2>&1); R=$?
  echo "$OUT" | grep "tier=" | head -1 | cut -c1-160
  echo "$OUT" | grep "^VIOLATION\|^HARNESS\|^violation" | head -3 | cut -c1-300
  echo "$P exit=$R known=$(echo "$OUT" | grep -c '^KNOWN-FINDING')"
  [ $R -ne 0 ] && RC=1
done
exit $RC
