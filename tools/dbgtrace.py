import json, sys, os
from dsim import runner, seams, core
prop = runner.load_prop(sys.argv[2]); prop.prepare()
doc = json.load(open(sys.argv[1]))
pid = os.fork()
if pid == 0:
    core.Sim.keep_all = True
    orig_rec = core.Sim.rec
    full = []
    def rec(self, kind, detail=''):
        orig_rec(self, kind, detail)
        if kind not in ('pick', 'env'):
            full.append(self.log[-1])
    core.Sim.rec = rec
    from dsim.runner import _unrle
    out = prop.run_plan(doc['plan'], doc['seed'], _unrle(doc.get('choices') or []) or None)
    for e in full:
        if any(k in str(e) for k in sys.argv[3:]): print(e)
    print(out['violations'])
    os._exit(0)
os.waitpid(pid, 0)
