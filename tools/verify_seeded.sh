#!/bin/sh
# tools/verify_seeded.sh <seeded dir>  - in a scratch worktree of /repo HEAD: demo passes without the patch, fails with it
D="$(readlink -f "$1")"
WT=/tmp/wt/verify_$$
git -C /repo worktree add -q --detach $WT HEAD || exit 2
cd $WT
timeout 300 /venv/bin/python "$D/demo.py" $WT >/tmp/verify_clean_$$.log 2>&1; RC0=$?
if git apply "$D/patch.diff"; then
  timeout 300 /venv/bin/python "$D/demo.py" $WT >/tmp/verify_mut_$$.log 2>&1; RC1=$?
  /venv/bin/python -c "import sys; sys.path.insert(0,'$WT'); import cassandra.connection, cassandra.pool, cassandra.policies" >/dev/null 2>&1; IMP=$?
else
  RC1=applyfail; IMP=-
fi
echo "$(basename $D): demo clean rc=$RC0, mutated rc=$RC1, import rc=$IMP"
tail -2 /tmp/verify_mut_$$.log | cut -c1-200
cd /; git -C /repo worktree remove --force $WT; rm -f /tmp/verify_clean_$$.log /tmp/verify_mut_$$.log
