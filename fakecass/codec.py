"""Independent CQL native-protocol codec (v1-v5), written from the protocol specifications.

Deliberately imports nothing from the driver: a mutant in cassandra.protocol / marshal / segment
cannot silently agree with this oracle.
"""
import socket
import struct
import uuid
import zlib

# opcodes
ERROR, STARTUP, READY, AUTHENTICATE, CREDENTIALS, OPTIONS, SUPPORTED, QUERY, RESULT, PREPARE, EXECUTE, \
    REGISTER, EVENT, BATCH, AUTH_CHALLENGE, AUTH_RESPONSE, AUTH_SUCCESS = range(0x11)
OPNAMES = ['ERROR', 'STARTUP', 'READY', 'AUTHENTICATE', 'CREDENTIALS', 'OPTIONS', 'SUPPORTED', 'QUERY', 'RESULT',
           'PREPARE', 'EXECUTE', 'REGISTER', 'EVENT', 'BATCH', 'AUTH_CHALLENGE', 'AUTH_RESPONSE', 'AUTH_SUCCESS']

FLAG_COMPRESSED, FLAG_TRACING, FLAG_PAYLOAD, FLAG_WARNING, FLAG_BETA = 0x01, 0x02, 0x04, 0x08, 0x10

# error codes
E_SERVER, E_PROTOCOL, E_BAD_CREDENTIALS = 0x0000, 0x000A, 0x0100
E_UNAVAILABLE, E_OVERLOADED, E_BOOTSTRAPPING, E_TRUNCATE = 0x1000, 0x1001, 0x1002, 0x1003
E_WRITE_TIMEOUT, E_READ_TIMEOUT, E_READ_FAILURE, E_FUNCTION_FAILURE, E_WRITE_FAILURE = 0x1100, 0x1200, 0x1300, 0x1400, 0x1500
E_SYNTAX, E_UNAUTHORIZED, E_INVALID, E_CONFIG, E_ALREADY_EXISTS, E_UNPREPARED = 0x2000, 0x2100, 0x2200, 0x2300, 0x2400, 0x2500

# type ids
T_CUSTOM, T_ASCII, T_BIGINT, T_BLOB, T_BOOLEAN, T_COUNTER, T_DECIMAL, T_DOUBLE, T_FLOAT, T_INT = range(10)
T_TIMESTAMP, T_UUID, T_VARCHAR, T_VARINT, T_TIMEUUID, T_INET = 0x0B, 0x0C, 0x0D, 0x0E, 0x0F, 0x10
T_LIST, T_MAP, T_SET = 0x20, 0x21, 0x22

CONSISTENCY = {0: 'ANY', 1: 'ONE', 2: 'TWO', 3: 'THREE', 4: 'QUORUM', 5: 'ALL', 6: 'LOCAL_QUORUM',
               7: 'EACH_QUORUM', 8: 'SERIAL', 9: 'LOCAL_SERIAL', 10: 'LOCAL_ONE'}


class DecodeError(Exception):
    pass


# ------------------------------------------------------------------ primitives
def w_short(n):
    return struct.pack('>H', n)


def w_int(n):
    return struct.pack('>i', n)


def w_long(n):
    return struct.pack('>q', n)


def w_string(s):
    b = s.encode('utf8')
    return struct.pack('>H', len(b)) + b


def w_long_string(s):
    b = s.encode('utf8')
    return struct.pack('>i', len(b)) + b


def w_bytes(b):
    return struct.pack('>i', -1) if b is None else struct.pack('>i', len(b)) + bytes(b)


def w_short_bytes(b):
    return struct.pack('>H', len(b)) + bytes(b)


def w_string_list(xs):
    return w_short(len(xs)) + b''.join(w_string(x) for x in xs)


def w_string_map(m):
    return w_short(len(m)) + b''.join(w_string(k) + w_string(v) for k, v in m.items())


def w_string_multimap(m):
    return w_short(len(m)) + b''.join(w_string(k) + w_string_list(v) for k, v in m.items())


def w_inet(addr, port):
    raw = socket.inet_pton(socket.AF_INET6 if ':' in addr else socket.AF_INET, addr)
    return bytes([len(raw)]) + raw + w_int(port)


class Reader(object):
    def __init__(self, data, pos=0):
        self.d = data
        self.p = pos

    def take(self, n):
        if n < 0 or self.p + n > len(self.d):
            raise DecodeError('short read: want %d at %d of %d' % (n, self.p, len(self.d)))
        b = self.d[self.p:self.p + n]
        self.p += n
        return bytes(b)

    def byte(self):
        return self.take(1)[0]

    def short(self):
        return struct.unpack('>H', self.take(2))[0]

    def int(self):
        return struct.unpack('>i', self.take(4))[0]

    def long(self):
        return struct.unpack('>q', self.take(8))[0]

    def string(self):
        return self.take(self.short()).decode('utf8')

    def long_string(self):
        return self.take(self.int()).decode('utf8')

    def bytes(self):
        n = self.int()
        if n < 0:
            return None
        return self.take(n)

    def value(self):
        """[value]: -1 null, -2 not set"""
        n = self.int()
        if n == -1:
            return None
        if n == -2:
            return UNSET
        return self.take(n)

    def short_bytes(self):
        return self.take(self.short())

    def string_list(self):
        return [self.string() for _ in range(self.short())]

    def string_map(self):
        return dict((self.string(), self.string()) for _ in range(self.short()))

    def done(self):
        return self.p >= len(self.d)

    def rest(self):
        return bytes(self.d[self.p:])


class _Unset(object):
    def __repr__(self):
        return 'UNSET'


UNSET = _Unset()


# ------------------------------------------------------------------ frames
def header_len(version):
    return 9 if version >= 3 else 8


def frame(version, stream, opcode, body, flags=0, response=True):
    vb = (0x80 if response else 0) | version
    if version >= 3:
        return struct.pack('>BBhBi', vb, flags, stream, opcode, len(body)) + body
    return struct.pack('>BBbBi', vb, flags, stream, opcode, len(body)) + body


def parse_header(buf):
    """-> (version, is_response, flags, stream, opcode, body_len, header_len) or None if incomplete."""
    if not buf:
        return None
    version = buf[0] & 0x7f
    hl = header_len(version)
    if len(buf) < hl:
        return None
    if version >= 3:
        _, flags, stream, op, ln = struct.unpack('>BBhBi', bytes(buf[:9]))
    else:
        _, flags, stream, op, ln = struct.unpack('>BBbBi', bytes(buf[:8]))
    return version, bool(buf[0] & 0x80), flags, stream, op, ln, hl


class FrameParser(object):
    """Incremental parser of a byte stream of envelopes (either direction)."""

    def __init__(self):
        self.buf = bytearray()

    def feed(self, data):
        self.buf += data
        out = []
        while True:
            h = parse_header(self.buf)
            if h is None:
                break
            version, is_resp, flags, stream, op, ln, hl = h
            if ln < 0:
                raise DecodeError('negative body length')
            if len(self.buf) < hl + ln:
                break
            body = bytes(self.buf[hl:hl + ln])
            del self.buf[:hl + ln]
            out.append({'version': version, 'response': is_resp, 'flags': flags, 'stream': stream,
                        'opcode': op, 'body': body})
        return out


# ------------------------------------------------------------------ v5 segments
CRC24_INIT = 0x875060
CRC24_POLY = 0x1974F0B
MAX_PAYLOAD = (1 << 17) - 1


def crc24(header_bytes):
    crc = CRC24_INIT
    for b in header_bytes:
        crc ^= b << 16
        for _ in range(8):
            crc <<= 1
            if crc & 0x1000000:
                crc ^= CRC24_POLY
    return crc & 0xFFFFFF


def crc32(payload):
    return zlib.crc32(payload, zlib.crc32(b'\xfa\x2d\x55\xca')) & 0xffffffff


def segment(payload, self_contained, compressed=False, compress=None, force_uncompressed=False):
    """Encode one segment.  With compression negotiated the header is 5 bytes (+3 CRC) and carries
    the uncompressed length, 0 meaning "payload left uncompressed"."""
    if len(payload) > MAX_PAYLOAD:
        raise ValueError('payload too large for one segment')
    if compressed:
        unc = len(payload)
        enc = None
        if not force_uncompressed and compress is not None:
            enc = compress(payload)
            if len(enc) >= unc:
                enc = None
        if enc is None:
            enc, unc = payload, 0
        h = len(enc) | (unc << 17) | ((1 << 34) if self_contained else 0)
        hb = h.to_bytes(5, 'little')
    else:
        enc = payload
        h = len(enc) | ((1 << 17) if self_contained else 0)
        hb = h.to_bytes(3, 'little')
    return hb + crc24(hb).to_bytes(3, 'little') + enc + crc32(enc).to_bytes(4, 'little')


def segments_for(message_bytes, compressed=False, compress=None, force_uncompressed=False):
    """One message -> list of encoded segments (self-contained if it fits in one)."""
    if len(message_bytes) <= MAX_PAYLOAD:
        return [segment(message_bytes, True, compressed, compress, force_uncompressed)]
    out = []
    for i in range(0, len(message_bytes), MAX_PAYLOAD):
        out.append(segment(message_bytes[i:i + MAX_PAYLOAD], False, compressed, compress, force_uncompressed))
    return out


class SegmentParser(object):
    """Incremental decoder of a v5 segment stream -> payload bytes (concatenated)."""

    def __init__(self, compressed=False, decompress=None):
        self.buf = bytearray()
        self.compressed = compressed
        self.decompress = decompress
        self.segments = 0

    def feed(self, data):
        self.buf += data
        out = bytearray()
        hl = 5 if self.compressed else 3
        while len(self.buf) >= hl + 3:
            hb = bytes(self.buf[:hl])
            if crc24(hb) != int.from_bytes(self.buf[hl:hl + 3], 'little'):
                raise DecodeError('segment header CRC24 mismatch')
            h = int.from_bytes(hb, 'little')
            plen = h & MAX_PAYLOAD
            unc = (h >> 17) & MAX_PAYLOAD if self.compressed else 0
            total = hl + 3 + plen + 4
            if len(self.buf) < total:
                break
            enc = bytes(self.buf[hl + 3:hl + 3 + plen])
            if crc32(enc) != int.from_bytes(self.buf[hl + 3 + plen:total], 'little'):
                raise DecodeError('segment payload CRC32 mismatch')
            del self.buf[:total]
            self.segments += 1
            if self.compressed and unc > 0:
                enc = self.decompress(enc, unc)
            out += enc
        return bytes(out)


# ------------------------------------------------------------------ request bodies
def parse_query_params(r, version):
    """<consistency><flags>[values][page_size][paging_state][serial][timestamp][keyspace][now]"""
    out = {}
    out['consistency'] = r.short()
    if version == 1:
        # v1: <query><consistency> and nothing else. The driver appends a flags byte all the same; Cassandra's v1 decoder reads the two
        # fields and ignores the rest of the body, and so does this one (frame conformance is C03's subject, not decided here)
        r.p = len(r.d)
        return out
    flags = r.int() if version >= 5 else r.byte()
    out['flags'] = flags
    if flags & 0x01:
        n = r.short()
        vals = []
        names = []
        for _ in range(n):
            if flags & 0x40:
                names.append(r.string())
            vals.append(r.value())
        out['values'] = vals
        if names:
            out['names'] = names
    out['skip_metadata'] = bool(flags & 0x02)
    if flags & 0x04:
        out['page_size'] = r.int()
    if flags & 0x08:
        out['paging_state'] = r.bytes()
    if flags & 0x10:
        out['serial_consistency'] = r.short()
    if flags & 0x20:
        out['timestamp'] = r.long()
    if version >= 5 and flags & 0x80:
        out['keyspace'] = r.string()
    if version >= 5 and flags & 0x100:
        out['now_in_seconds'] = r.int()
    return out


def parse_request(version, opcode, body):
    """Decode a request body into a dict (raises DecodeError when malformed)."""
    r = Reader(body)
    out = {'op': OPNAMES[opcode] if opcode < len(OPNAMES) else opcode}
    if opcode == STARTUP:
        out['options'] = r.string_map()
    elif opcode == OPTIONS:
        pass
    elif opcode == AUTH_RESPONSE:
        out['token'] = r.bytes()
    elif opcode == CREDENTIALS:
        out['credentials'] = r.string_map()
    elif opcode == REGISTER:
        out['events'] = r.string_list()
    elif opcode == QUERY:
        out['query'] = r.long_string()
        out.update(parse_query_params(r, version))
    elif opcode == PREPARE:
        out['query'] = r.long_string()
        if version >= 5:
            fl = r.int()
            if fl & 0x01:
                out['keyspace'] = r.string()
    elif opcode == EXECUTE:
        out['id'] = r.short_bytes()
        if version >= 5:
            out['result_metadata_id'] = r.short_bytes()
        if version == 1:
            n = r.short()
            out['values'] = [r.value() for _ in range(n)]
            out['consistency'] = r.short()
        else:
            out.update(parse_query_params(r, version))
    elif opcode == BATCH:
        out['batch_type'] = r.byte()
        n = r.short()
        qs = []
        for _ in range(n):
            kind = r.byte()
            q = {'kind': kind}
            if kind == 0:
                q['query'] = r.long_string()
            else:
                q['id'] = r.short_bytes()
            nv = r.short()
            q['values'] = [r.value() for _ in range(nv)]
            qs.append(q)
        out['queries'] = qs
        out['consistency'] = r.short()
        if version >= 3:
            flags = r.int() if version >= 5 else r.byte()
            out['flags'] = flags
            if flags & 0x10:
                out['serial_consistency'] = r.short()
            if flags & 0x20:
                out['timestamp'] = r.long()
            if version >= 5 and flags & 0x80:
                out['keyspace'] = r.string()
    else:
        raise DecodeError('unexpected request opcode %r' % opcode)
    if not r.done():
        raise DecodeError('%d trailing bytes after %s body' % (len(body) - r.p, out['op']))
    return out


# ------------------------------------------------------------------ response bodies
def supported_body(cql_versions=('3.4.5',), compressions=(), extra=None):
    m = {'CQL_VERSION': list(cql_versions), 'COMPRESSION': list(compressions)}
    if extra:
        m.update(extra)
    return w_string_multimap(m)


def error_body(code, msg, version=4, **kw):
    out = w_int(code) + w_string(msg)
    if code == E_UNAVAILABLE:
        out += w_short(kw.get('cl', 1)) + w_int(kw.get('required', 2)) + w_int(kw.get('alive', 1))
    elif code == E_WRITE_TIMEOUT:
        out += w_short(kw.get('cl', 1)) + w_int(kw.get('received', 0)) + w_int(kw.get('blockfor', 1)) + \
            w_string(kw.get('write_type', 'SIMPLE'))
        if version >= 5 and kw.get('write_type') == 'CAS':
            out += w_short(kw.get('contentions', 0))
    elif code == E_READ_TIMEOUT:
        out += w_short(kw.get('cl', 1)) + w_int(kw.get('received', 0)) + w_int(kw.get('blockfor', 1)) + \
            bytes([1 if kw.get('data_present') else 0])
    elif code in (E_READ_FAILURE, E_WRITE_FAILURE):
        out += w_short(kw.get('cl', 1)) + w_int(kw.get('received', 0)) + w_int(kw.get('blockfor', 1))
        if version >= 5:
            out += w_int(1) + bytes([4, 10, 0, 0, 1]) + w_short(0)
        else:
            out += w_int(kw.get('failures', 1))
        if code == E_READ_FAILURE:
            out += bytes([1 if kw.get('data_present') else 0])
        else:
            out += w_string(kw.get('write_type', 'SIMPLE'))
    elif code == E_ALREADY_EXISTS:
        out += w_string(kw.get('keyspace', 'ks')) + w_string(kw.get('table', ''))
    elif code == E_UNPREPARED:
        out += w_short_bytes(kw.get('id', b''))
    return out


def w_type(t):
    if isinstance(t, tuple):
        if t[0] == T_CUSTOM:
            return w_short(0) + w_string(t[1])
        return w_short(t[0]) + b''.join(w_type(x) for x in t[1:])
    return w_short(t)


def enc_val(t, v, version=4):
    """Encode a Python value for CQL type t (subset needed by the fake cluster)."""
    if v is None:
        return None
    if isinstance(t, tuple):
        kind = t[0]
        if version >= 3:
            cnt, el = w_int, w_bytes
        else:
            cnt, el = w_short, (lambda b: w_short(len(b)) + b)
        if kind in (T_SET, T_LIST):
            return cnt(len(v)) + b''.join(el(enc_val(t[1], x, version)) for x in v)
        if kind == T_MAP:
            return cnt(len(v)) + b''.join(el(enc_val(t[1], k, version)) + el(enc_val(t[2], x, version))
                                          for k, x in v.items())
        raise ValueError(t)
    if t in (T_VARCHAR, T_ASCII):
        return v.encode('utf8')
    if t == T_INT:
        return struct.pack('>i', v)
    if t in (T_BIGINT, T_TIMESTAMP, T_COUNTER):
        return struct.pack('>q', v)
    if t == T_BOOLEAN:
        return b'\x01' if v else b'\x00'
    if t in (T_UUID, T_TIMEUUID):
        return v.bytes if isinstance(v, uuid.UUID) else uuid.UUID(v).bytes
    if t == T_INET:
        return socket.inet_pton(socket.AF_INET6 if ':' in v else socket.AF_INET, v)
    if t == T_BLOB:
        return bytes(v)
    if t == T_DOUBLE:
        return struct.pack('>d', v)
    raise ValueError('unsupported type %r' % (t,))


def rows_metadata(ks, table, cols, paging_state=None, no_metadata=False, new_metadata_id=None):
    flags = 0x0001
    if paging_state is not None:
        flags |= 0x0002
    if no_metadata:
        flags = (flags | 0x0004) & ~0x0001
    if new_metadata_id is not None:
        flags |= 0x0008
    out = w_int(flags) + w_int(len(cols))
    if paging_state is not None:
        out += w_bytes(paging_state)
    if new_metadata_id is not None:
        out += w_short_bytes(new_metadata_id)
    if not no_metadata:
        out += w_string(ks) + w_string(table)
        for name, t in cols:
            out += w_string(name) + w_type(t)
    return out


def rows_body(ks, table, cols, rows, paging_state=None, version=4, no_metadata=False):
    out = w_int(2) + rows_metadata(ks, table, cols, paging_state, no_metadata)
    out += w_int(len(rows))
    for r in rows:
        for (name, t), v in zip(cols, r):
            out += w_bytes(enc_val(t, v, version))
    return out


def void_body():
    return w_int(1)


def set_keyspace_body(ks):
    return w_int(3) + w_string(ks)


def prepared_body(qid, bind_cols, result_cols, ks, table, version=4, pk_indexes=(), result_metadata_id=None):
    out = w_int(4) + w_short_bytes(qid)
    if version >= 5:
        out += w_short_bytes(result_metadata_id or b'\x00' * 16)
    flags = 0x0001
    out += w_int(flags) + w_int(len(bind_cols))
    if version >= 4:
        out += w_int(len(pk_indexes)) + b''.join(w_short(i) for i in pk_indexes)
    out += w_string(ks) + w_string(table)
    for name, t in bind_cols:
        out += w_string(name) + w_type(t)
    if version >= 2:
        if result_cols:
            out += rows_metadata(ks, table, result_cols)
        else:
            out += w_int(0x0004) + w_int(0)
    return out


def schema_change_body(change, target, keyspace, name=None, version=4, as_event=False):
    out = b'' if as_event else w_int(5)
    if version >= 3:
        out += w_string(change) + w_string(target) + w_string(keyspace)
        if target != 'KEYSPACE':
            out += w_string(name or '')
    else:
        out += w_string(change) + w_string(keyspace) + w_string(name or '')
    return out


def event_body(kind, *args, **kw):
    version = kw.get('version', 4)
    if kind in ('TOPOLOGY_CHANGE', 'STATUS_CHANGE'):
        change, addr, port = args
        return w_string(kind) + w_string(change) + w_inet(addr, port)
    if kind == 'SCHEMA_CHANGE':
        change, target, keyspace, name = args
        return w_string(kind) + schema_change_body(change, target, keyspace, name, version, as_event=True)
    raise ValueError(kind)


# ------------------------------------------------------------------ response parsing (for oracles on byte level)
def parse_rows_simple(body, version=4):
    """Parse a RESULT/Rows body built by rows_body (used by harness-side handlers in W-CONN)."""
    r = Reader(body)
    kind = r.int()
    if kind != 2:
        return {'kind': kind}
    flags = r.int()
    ncols = r.int()
    ps = r.bytes() if flags & 0x02 else None
    cols = []
    if flags & 0x01:
        r.string()
        r.string()
    if not flags & 0x04:
        for _ in range(ncols):
            if not flags & 0x01:
                r.string()
                r.string()
            name = r.string()
            t = _read_type(r)
            cols.append((name, t))
    n = r.int()
    rows = [[r.bytes() for _ in range(ncols)] for _ in range(n)]
    return {'kind': 2, 'cols': cols, 'rows': rows, 'paging_state': ps}


def _read_type(r):
    t = r.short()
    if t == T_CUSTOM:
        return (T_CUSTOM, r.string())
    if t in (T_LIST, T_SET):
        return (t, _read_type(r))
    if t == T_MAP:
        return (t, _read_type(r), _read_type(r))
    return t
