"""Reference token ring: independent Murmur3 partitioner hash (Cassandra's variant) and SimpleStrategy / NetworkTopologyStrategy
replica placement, written from the Cassandra algorithm descriptions and not from the driver's code."""

M64 = (1 << 64) - 1
C1 = 0x87c37b91114253d5
C2 = 0x4cf5ad432745937f


def _rotl(x, r):
    return ((x << r) | (x >> (64 - r))) & M64


def _fmix(k):
    k ^= k >> 33
    k = (k * 0xff51afd7ed558ccd) & M64
    k ^= k >> 33
    k = (k * 0xc4ceb9fe1a85ec53) & M64
    k ^= k >> 33
    return k


def _sbyte(b):
    """Java bytes are signed: Cassandra sign-extends the tail bytes before shifting them in."""
    return (b - 256 if b > 127 else b) & M64


def murmur3_token(key):
    """MurmurHash3 x64 128, seed 0, first 64 bits as a signed long; Long.MIN_VALUE is mapped to Long.MAX_VALUE."""
    data = bytes(key)
    n = len(data)
    h1 = h2 = 0
    nblocks = n // 16
    for i in range(nblocks):
        k1 = int.from_bytes(data[i * 16:i * 16 + 8], 'little')
        k2 = int.from_bytes(data[i * 16 + 8:i * 16 + 16], 'little')
        k1 = (k1 * C1) & M64
        k1 = _rotl(k1, 31)
        k1 = (k1 * C2) & M64
        h1 ^= k1
        h1 = _rotl(h1, 27)
        h1 = (h1 + h2) & M64
        h1 = (h1 * 5 + 0x52dce729) & M64
        k2 = (k2 * C2) & M64
        k2 = _rotl(k2, 33)
        k2 = (k2 * C1) & M64
        h2 ^= k2
        h2 = _rotl(h2, 31)
        h2 = (h2 + h1) & M64
        h2 = (h2 * 5 + 0x38495ab5) & M64
    tail = data[nblocks * 16:]
    k1 = k2 = 0
    t = len(tail)
    for i in range(t - 1, 7, -1):          # bytes 8..14 -> k2
        k2 ^= (_sbyte(tail[i]) << ((i - 8) * 8)) & M64
    if t > 8:
        k2 = (k2 * C2) & M64
        k2 = _rotl(k2, 33)
        k2 = (k2 * C1) & M64
        h2 ^= k2
    for i in range(min(t, 8) - 1, -1, -1):  # bytes 0..7 -> k1
        k1 ^= (_sbyte(tail[i]) << (i * 8)) & M64
    if t > 0:
        k1 = (k1 * C1) & M64
        k1 = _rotl(k1, 31)
        k1 = (k1 * C2) & M64
        h1 ^= k1
    h1 ^= n
    h2 ^= n
    h1 = (h1 + h2) & M64
    h2 = (h2 + h1) & M64
    h1 = _fmix(h1)
    h2 = _fmix(h2)
    h1 = (h1 + h2) & M64
    v = h1 - (1 << 64) if h1 >= (1 << 63) else h1
    if v == -(1 << 63):
        v = (1 << 63) - 1
    return v


def random_token(key):
    """RandomPartitioner: MD5 of the key read as a signed big-endian BigInteger, absolute value (0 .. 2**127)."""
    import hashlib
    d = hashlib.md5(bytes(key)).digest()
    v = int.from_bytes(d, 'big')
    if d[0] & 0x80:
        v -= 1 << 128
    return -v if v < 0 else v


def bytes_token(key):
    """ByteOrderedPartitioner: the key itself, compared as unsigned bytes."""
    return bytes(key)


# short name -> (class name in system.local, key -> token, token string of the system tables -> token)
PARTITIONERS = {
    'murmur3': ('org.apache.cassandra.dht.Murmur3Partitioner', murmur3_token, int),
    'random': ('org.apache.cassandra.dht.RandomPartitioner', random_token, int),
    'bytes': ('org.apache.cassandra.dht.ByteOrderedPartitioner', bytes_token, bytes.fromhex),
}


class RefRing(object):
    """nodes: list of dicts {'addr','dc','rack','tokens':[token values, already parsed]}"""

    def __init__(self, nodes):
        self.nodes = dict((n['addr'], n) for n in nodes)
        self.ring = sorted((t if isinstance(t, bytes) else int(t), n['addr']) for n in nodes for t in n['tokens'])

    def walk(self, token):
        """Addresses in ring order starting at the owner of `token` (first ring token >= token, wrapping), one entry per ring token."""
        r = self.ring
        if not r:
            return []
        start = 0
        for i, (t, a) in enumerate(r):
            if t >= token:
                start = i
                break
        else:
            start = 0
        return [r[(start + i) % len(r)][1] for i in range(len(r))]

    def replicas(self, replication, token):
        cls = replication.get('class', '').rsplit('.', 1)[-1]
        order = self.walk(token)
        if cls == 'SimpleStrategy':
            rf = int(replication.get('replication_factor', 1))
            out = []
            for a in order:
                if a not in out:
                    out.append(a)
                    if len(out) >= rf:
                        break
            return out
        if cls == 'NetworkTopologyStrategy':
            rfs = dict((k, int(v)) for k, v in replication.items() if k != 'class')
            dc_nodes = {}
            dc_racks = {}
            for a, n in self.nodes.items():
                if n['tokens']:
                    dc_nodes.setdefault(n['dc'], set()).add(a)
                    dc_racks.setdefault(n['dc'], set()).add(n['rack'])
            out = []
            per = {}
            seen_racks = {}
            skipped = {}
            for a in order:
                n = self.nodes[a]
                dc = n['dc']
                want = min(rfs.get(dc, 0), len(dc_nodes.get(dc, ())))
                got = per.setdefault(dc, [])
                if len(got) >= want or a in got or a in skipped.get(dc, []):
                    continue
                racks = seen_racks.setdefault(dc, set())
                if len(racks) == len(dc_racks[dc]):
                    got.append(a)
                    out.append(a)
                elif n['rack'] in racks:
                    skipped.setdefault(dc, []).append(a)
                else:
                    got.append(a)
                    out.append(a)
                    racks.add(n['rack'])
                    if len(racks) == len(dc_racks[dc]):
                        for s in skipped.get(dc, []):
                            if len(got) < want:
                                got.append(s)
                                out.append(s)
            return out
        return []
