"""Fake Cassandra cluster: nodes speaking the native protocol through the independent codec.

Everything here runs in controller (environment-event) context: no blocking, no driver imports.
Every node keeps a totally ordered log (global sim sequence number, virtual time) of what it
received and sent; oracles read those logs.
"""
import hashlib
import re
import uuid

from . import codec as C

MURMUR3 = 'org.apache.cassandra.dht.Murmur3Partitioner'

LOCAL_COLS = [('key', C.T_VARCHAR), ('cluster_name', C.T_VARCHAR), ('data_center', C.T_VARCHAR), ('rack', C.T_VARCHAR),
              ('partitioner', C.T_VARCHAR), ('release_version', C.T_VARCHAR), ('schema_version', C.T_UUID),
              ('tokens', (C.T_SET, C.T_VARCHAR)), ('host_id', C.T_UUID), ('rpc_address', C.T_INET),
              ('broadcast_address', C.T_INET), ('listen_address', C.T_INET), ('cql_version', C.T_VARCHAR),
              ('native_protocol_version', C.T_VARCHAR)]
PEER_COLS = [('peer', C.T_INET), ('data_center', C.T_VARCHAR), ('rack', C.T_VARCHAR), ('release_version', C.T_VARCHAR),
             ('schema_version', C.T_UUID), ('tokens', (C.T_SET, C.T_VARCHAR)), ('host_id', C.T_UUID),
             ('rpc_address', C.T_INET)]
PEER_V2_COLS = [('peer', C.T_INET), ('peer_port', C.T_INT), ('data_center', C.T_VARCHAR), ('rack', C.T_VARCHAR),
                ('release_version', C.T_VARCHAR), ('schema_version', C.T_UUID), ('tokens', (C.T_SET, C.T_VARCHAR)),
                ('host_id', C.T_UUID), ('native_address', C.T_INET), ('native_port', C.T_INT)]
KS_COLS = [('keyspace_name', C.T_VARCHAR), ('durable_writes', C.T_BOOLEAN),
           ('replication', (C.T_MAP, C.T_VARCHAR, C.T_VARCHAR))]
USER_COLS = [('rid', C.T_INT), ('node', C.T_INT), ('seqno', C.T_INT)]

RID_RE = re.compile(r'/\*rid=(\d+)\*/')
SELECT_RE = re.compile(r'^\s*SELECT\s+(.*?)\s+FROM\s+([\w.]+)', re.I | re.S)
USE_RE = re.compile(r'^\s*USE\s+"?([\w]+)"?', re.I)

ERRORS = {
    'read_timeout': (C.E_READ_TIMEOUT, 'Operation timed out - received only 0 responses.',
                     {'cl': 1, 'received': 0, 'blockfor': 1, 'data_present': False}),
    'write_timeout': (C.E_WRITE_TIMEOUT, 'Operation timed out - received only 0 responses.',
                      {'cl': 1, 'received': 0, 'blockfor': 1, 'write_type': 'SIMPLE'}),
    'unavailable': (C.E_UNAVAILABLE, 'Cannot achieve consistency level ONE', {'cl': 1, 'required': 1, 'alive': 0}),
    'overloaded': (C.E_OVERLOADED, 'Coordinator overloaded', {}),
    'bootstrapping': (C.E_BOOTSTRAPPING, 'Cannot read from a bootstrapping node', {}),
    'truncate': (C.E_TRUNCATE, 'Error during truncate', {}),
    'server_error': (C.E_SERVER, 'java.lang.RuntimeException: injected', {}),
    'invalid': (C.E_INVALID, 'Invalid request (injected)', {}),
    'syntax': (C.E_SYNTAX, 'line 1:0 no viable alternative', {}),
    'unauthorized': (C.E_UNAUTHORIZED, 'not authorized', {}),
    'protocol_error': (C.E_PROTOCOL, 'Invalid message (injected)', {}),
}


def host_uuid(i):
    return uuid.UUID(int=(0xABCD0000 << 96) | (i + 1))


class NodeConn(object):
    """Server side of one client connection."""

    def __init__(self, node, conn):
        self.node = node
        self.conn = conn
        self.label = conn.label
        self.frames = C.FrameParser()
        self.segs_in = None
        self.segmented_out = False
        self.version = None
        self.keyspace = None
        self.events = set()
        self.outstanding = {}        # stream -> rid or tag (received and not yet answered; dropped stay)
        self.closed = False
        self.ready = False
        self.queued = []             # frames held while the node is stalled
        self.use_log = []            # (seq, keyspace) accepted USE statements
        self.options_seen = 0
        self.accepted_seq = node.cluster.sim.nlog
        self.accepted_t = node.cluster.sim.vnow()

    # transport callbacks ------------------------------------------------
    def on_data(self, conn, data):
        node = self.node
        try:
            if self.segs_in is not None:
                data = self.segs_in.feed(data)
            frames = self.frames.feed(data)
        except C.DecodeError as e:
            node.cluster.decode_errors.append((node.idx, self.label, 'framing', str(e)))
            return
        for fr in frames:
            if node.stalled:
                self.queued.append(fr)
            else:
                node.handle_frame(self, fr)

    def on_close(self, conn):
        self.closed = True
        self.node.cluster.sim.rec('node.connclosed', 'n%d %s' % (self.node.idx, self.label))

    # sending --------------------------------------------------------------
    def send(self, stream, opcode, body, flags=0, delay=None, version=None):
        if self.closed:
            return
        v = version or self.version or 4
        env = C.frame(v, stream, opcode, body, flags)
        if self.segmented_out:
            data = b''.join(C.segments_for(env, False, None))
        else:
            data = env
        self.conn.server_send(data, latency=delay)

    def enable_segments(self):
        self.segs_in = C.SegmentParser(False, None)
        self.segmented_out = True


class FakeNode(object):
    def __init__(self, cluster, idx, dc='dc1', rack='r1', tokens=None, release='3.11.4', versions=(3, 4),
                 addr=None):
        self.cluster = cluster
        self.idx = idx
        self.addr = addr or '10.0.0.%d' % (idx + 1)
        self.host_id = host_uuid(idx)
        self.dc = dc
        self.rack = rack
        self.tokens = list(tokens) if tokens is not None else [str(-9000000000000000000 + idx * 1000003 * 7919 + k * 3000000000000000000)
                                                               for k in range(2)]
        self.release = release
        self.versions = set(versions)
        self.beta_versions = set()
        self.schema_version = uuid.UUID(int=77)
        self.up = True
        self.mode = 'accept'          # accept | refuse | blackhole
        self.stalled = False
        self.conns = []
        self.prepared = {}            # id bytes -> (query, keyspace)
        self.auth = None
        self.log = []                 # received requests
        self.replies = []
        self.generation = 0
        self.behaviour = {}           # free-form per-node switches used by property plans
        self.use_errors = []          # consumed per USE statement: error kind or None
        self.use_delay = 0.0          # extra latency of a successful USE
        self.options_behaviour = []   # consumed per OPTIONS on a ready connection: 'ok' | 'error' | 'drop'

    # acceptor interface ---------------------------------------------------
    def connect_mode(self, conn):
        return self.mode if self.up else ('refuse' if self.mode != 'blackhole' else 'blackhole')

    def accept(self, conn):
        nc = NodeConn(self, conn)
        self.conns.append(nc)
        self.cluster.sim.rec('node.accept', 'n%d %s' % (self.idx, conn.label))
        return nc

    def live_conns(self):
        return [c for c in self.conns if not c.closed and not c.conn.reset and not c.conn.client_closed]

    # rows ------------------------------------------------------------------------
    def local_row(self):
        return {'key': 'local', 'cluster_name': 'simcluster', 'data_center': self.dc, 'rack': self.rack,
                'partitioner': self.cluster.partitioner, 'release_version': self.release, 'schema_version': self.schema_version,
                'tokens': self.tokens, 'host_id': self.host_id, 'rpc_address': self.addr,
                'broadcast_address': self.addr, 'listen_address': self.addr, 'cql_version': '3.4.5',
                'native_protocol_version': str(max(self.versions))}

    def peer_row(self, viewer, v2=False):
        row = {'peer': self.addr, 'data_center': self.dc, 'rack': self.rack, 'release_version': self.release,
               'schema_version': self.cluster.schema_version_seen(viewer, self), 'tokens': self.tokens,
               'host_id': self.host_id}
        if v2:
            row.update({'peer_port': 7000, 'native_address': self.addr, 'native_port': 9042})
        else:
            row['rpc_address'] = self.addr
        ov = self.cluster.peer_overrides.get((viewer.idx, self.idx))
        if ov:
            row.update(ov)
        return row

    # protocol ---------------------------------------------------------------------
    def handle_frame(self, nc, fr):
        cl = self.cluster
        sim = cl.sim
        v, s, op = fr['version'], fr['stream'], fr['opcode']
        try:
            req = C.parse_request(v, op, fr['body'])
        except Exception as e:
            cl.decode_errors.append((self.idx, nc.label, 'body', '%s op=%s' % (e, op)))
            nc.send(s, C.ERROR, C.error_body(C.E_PROTOCOL, 'cannot parse request: %s' % e), version=min(v, 4))
            return
        beta = bool(fr['flags'] & C.FLAG_BETA)
        if op in (C.OPTIONS, C.STARTUP) and not nc.ready:
            cl.first_frames.append((sim.nlog, self.idx, nc.label, v, op, beta))
        if v not in self.versions and not (v in self.beta_versions and beta):
            hv = max(self.versions)
            if v in self.beta_versions:
                msg = 'Beta version of the protocol used (%d/v%d-beta), but USE_BETA flag is unset' % (v, v)
            else:
                msg = 'Invalid or unsupported protocol version (%d); supported versions are (%s)' % (
                    v, ', '.join('%d/v%d' % (x, x) for x in sorted(self.versions)))
            sim.rec('node.reject-version', 'n%d v%d' % (self.idx, v))
            nc.send(s, C.ERROR, C.error_body(C.E_PROTOCOL, msg), version=min(hv, v) if v < 0x40 else hv)
            return
        nc.version = v
        entry = {'seq': sim.nlog, 'sent_seq': nc.conn.current_send_seq, 't': round(sim.vnow(), 6), 'node': self.idx, 'conn': nc.label, 'stream': s,
                 'op': req['op'], 'version': v, 'keyspace': nc.keyspace, 'flags': fr['flags']}
        if op == C.OPTIONS:
            nc.options_seen += 1
            entry['ready'] = nc.ready
            self.log.append(entry)
            if nc.ready:
                beh = self.options_behaviour.pop(0) if self.options_behaviour else 'ok'
                entry['behaviour'] = beh
                if beh == 'drop':
                    nc.outstanding[s] = 'options'
                    return
                if beh == 'error':
                    nc.send(s, C.ERROR, C.error_body(C.E_SERVER, 'injected heartbeat failure'))
                    return
            nc.send(s, C.SUPPORTED, C.supported_body())
            return
        if op == C.STARTUP:
            self.log.append(entry)
            if self.auth:
                nc.send(s, C.AUTHENTICATE, C.w_string(self.auth))
            else:
                nc.ready = True
                nc.send(s, C.READY, b'')
            if 5 <= v < 0x40:
                nc.enable_segments()
            return
        if op == C.AUTH_RESPONSE:
            nc.ready = True
            nc.send(s, C.AUTH_SUCCESS, C.w_bytes(None))
            return
        if op == C.REGISTER:
            nc.events.update(req['events'])
            entry['events'] = list(req['events'])
            self.log.append(entry)
            nc.send(s, C.READY, b'')
            return
        if op == C.QUERY:
            self.handle_query(nc, s, req, entry)
        elif op == C.PREPARE:
            self.handle_prepare(nc, s, req, entry)
        elif op == C.EXECUTE:
            self.handle_execute(nc, s, req, entry)
        elif op == C.BATCH:
            entry.update(consistency=req.get('consistency'), serial_consistency=req.get('serial_consistency'),
                         timestamp=req.get('timestamp'), nqueries=len(req['queries']))
            rid = None
            for q in req['queries']:
                m = RID_RE.search(q.get('query', '') or '')
                if m:
                    rid = int(m.group(1))
            self.user_request(nc, s, rid, entry, req, kind='batch')
        else:
            nc.send(s, C.ERROR, C.error_body(C.E_PROTOCOL, 'unexpected opcode %d' % op))

    # ---- queries
    def _project(self, nc, s, ksname, table, cols, rows, selected):
        if selected and selected != ['*']:
            cols = [c for c in cols if c[0] in selected]
        body = C.rows_body(ksname, table, cols, [[r.get(c[0]) for c in cols] for r in rows], version=nc.version)
        nc.send(s, C.RESULT, body, delay=self.cluster.sys_latency(self))

    def handle_query(self, nc, s, req, entry):
        cl = self.cluster
        q = req['query']
        entry.update(query=q, consistency=req.get('consistency'), serial_consistency=req.get('serial_consistency'),
                     page_size=req.get('page_size'), paging_state=req.get('paging_state'),
                     timestamp=req.get('timestamp'), req_keyspace=req.get('keyspace'))
        m = SELECT_RE.match(q)
        table = m.group(2).lower() if m else None
        if table and (table.startswith('system.') or table.startswith('system_schema.') or
                      table.startswith('system_virtual_schema.') or table.startswith('system_traces')):
            entry['sys'] = table
            self.log.append(entry)
            selected = [c.strip() for c in m.group(1).split(',')]
            if cl.sys_drop(self, table):
                nc.outstanding[s] = 'sys'
                return
            if table == 'system.local':
                cl.polls.append((cl.sim.nlog, self.idx, 'local', str(self.schema_version)))
                return self._project(nc, s, 'system', 'local', LOCAL_COLS, [self.local_row()], selected)
            if table == 'system.peers':
                rows = [n.peer_row(self) for n in cl.members if n is not self]
                rows += cl.extra_peer_rows.get(self.idx, [])
                cl.polls.append((cl.sim.nlog, self.idx, 'peers', [(r.get('peer'), str(r.get('schema_version'))) for r in rows]))
                cl.snapshots_served.append((cl.sim.nlog, self.idx, cl.snapshot_id))
                return self._project(nc, s, 'system', 'peers', PEER_COLS, rows, selected)
            if table == 'system.peers_v2':
                if not self.release.startswith('4'):
                    nc.send(s, C.ERROR, C.error_body(C.E_INVALID, 'unconfigured table peers_v2'))
                    return
                rows = [n.peer_row(self, v2=True) for n in cl.members if n is not self]
                rows += cl.extra_peer_rows.get(self.idx, [])
                cl.polls.append((cl.sim.nlog, self.idx, 'peers', [(r.get('peer'), str(r.get('schema_version'))) for r in rows]))
                cl.snapshots_served.append((cl.sim.nlog, self.idx, cl.snapshot_id))
                return self._project(nc, s, 'system', 'peers_v2', PEER_V2_COLS, rows, selected)
            if table == 'system_schema.keyspaces':
                rows = [{'keyspace_name': k, 'durable_writes': True, 'replication': rep}
                        for k, rep in sorted(cl.keyspaces.items())]
                m2 = re.search(r"keyspace_name\s*=\s*'(\w+)'", q)
                if m2:
                    rows = [r for r in rows if r['keyspace_name'] == m2.group(1)]
                return self._project(nc, s, 'system_schema', 'keyspaces', KS_COLS, rows, ['*'])
            # every other schema table: zero rows, never zero columns
            return self._project(nc, s, table.split('.')[0], table.split('.')[1], [('keyspace_name', C.T_VARCHAR)], [], ['*'])
        mu = USE_RE.match(q)
        if mu:
            ks = mu.group(1)
            entry['use'] = ks
            self.log.append(entry)
            err = self.use_errors.pop(0) if self.use_errors else None
            entry['behaviour_use_error'] = err
            if err == 'drop':
                nc.outstanding[s] = 'use'
                return
            if err:
                code, msg, kw = ERRORS[err]
                nc.send(s, C.ERROR, C.error_body(code, msg, nc.version, **kw), delay=cl.sys_latency(self))
                return
            if ks not in cl.keyspaces and not ks.startswith('system'):
                nc.send(s, C.ERROR, C.error_body(C.E_INVALID, "Keyspace '%s' does not exist" % ks))
                return
            nc.keyspace = ks
            nc.use_log.append((cl.sim.nlog, ks))
            nc.send(s, C.RESULT, C.set_keyspace_body(ks), delay=cl.sys_latency(self) + self.use_delay)
            return
        mr = RID_RE.search(q)
        rid = int(mr.group(1)) if mr else None
        self.user_request(nc, s, rid, entry, req, kind='query')

    def handle_prepare(self, nc, s, req, entry):
        cl = self.cluster
        q = req['query']
        ks = req.get('keyspace') or nc.keyspace
        qid = cl.prepared_id(q, ks if nc.version >= 5 else nc.keyspace)
        entry.update(query=q, req_keyspace=req.get('keyspace'), qid=qid.hex())
        self.log.append(entry)
        beh = cl.next_prepare_behaviour(self, q)
        entry['behaviour'] = beh
        if beh == 'drop':
            nc.outstanding[s] = 'prepare'
            return
        if beh == 'error':
            nc.send(s, C.ERROR, C.error_body(C.E_SERVER, 'injected prepare failure'))
            return
        if beh == 'different_id':
            qid = hashlib.md5(qid + b'!').digest()
        if beh == 'other_id' and getattr(cl, 'other_query', None):
            # the id of another statement the client has prepared (and still holds) comes back
            qid = cl.prepared_id(cl.other_query, ks if nc.version >= 5 else nc.keyspace)
        if beh == 'close':
            nc.conn.rst('rst')
            return
        self.prepared[qid] = (q, ks)
        nbind = q.count('?')
        bind = [('p%d' % i, C.T_INT) for i in range(nbind)]
        body = C.prepared_body(qid, bind, USER_COLS, ks or 'ks1', 't', version=nc.version,
                               pk_indexes=([0] if nbind else []))
        nc.send(s, C.RESULT, body, delay=cl.sys_latency(self))

    def handle_execute(self, nc, s, req, entry):
        qid = req['id']
        entry.update(qid=qid.hex(), consistency=req.get('consistency'), serial_consistency=req.get('serial_consistency'),
                     page_size=req.get('page_size'), paging_state=req.get('paging_state'),
                     timestamp=req.get('timestamp'), skip_metadata=req.get('skip_metadata'))
        vals = req.get('values') or []
        rid = None
        if vals and isinstance(vals[0], bytes) and len(vals[0]) == 4:
            rid = int.from_bytes(vals[0], 'big', signed=True)
        known = self.prepared.get(qid)
        if known is None or self.cluster.force_unprepared(self, rid):
            entry['rid'] = rid
            entry['unprepared'] = True
            self.log.append(entry)
            nc.send(s, C.ERROR, C.error_body(C.E_UNPREPARED, 'Prepared query with ID %s not found' % qid.hex(), id=qid),
                    delay=self.cluster.sys_latency(self))
            return
        entry['query'] = known[0]
        self.user_request(nc, s, rid, entry, req, kind='execute')

    # ---- user statements (scripted)
    def user_request(self, nc, s, rid, entry, req, kind):
        cl = self.cluster
        sim = cl.sim
        entry['rid'] = rid
        entry['kind'] = kind
        attempt = cl.arrivals.get(rid, 0)
        cl.arrivals[rid] = attempt + 1
        entry['attempt'] = attempt
        if s in nc.outstanding:
            cl.stream_reuse.append((sim.nlog, self.idx, nc.label, s, nc.outstanding[s], rid))
        nc.outstanding[s] = rid
        self.log.append(entry)
        sim.rec('node.req', 'n%d %s s=%d rid=%s #%d' % (self.idx, nc.label, s, rid, attempt))
        beh = cl.next_behaviour(rid, self, entry)
        entry['behaviour'] = beh.get('kind')
        kindb = beh.get('kind', 'ok')
        delay = beh.get('delay', None)
        if delay is None:
            delay = cl.user_latency(self)
        if kindb == 'drop':
            return
        if kindb == 'close':
            sim.at(delay, lambda: nc.conn.rst('rst'), 'scripted rst %s' % nc.label)
            return

        def reply():
            if nc.closed or nc.outstanding.get(s) != rid:
                return
            if self.stalled:
                nc.queued.append(('reply', reply))
                return
            del nc.outstanding[s]
            v = nc.version
            flags = 0
            if kindb == 'error':
                code, msg, kw = ERRORS[beh['error']]
                body = C.error_body(code, msg, v, **dict(kw, **beh.get('params', {})))
                op = C.ERROR
            elif kindb == 'void':
                body, op = C.void_body(), C.RESULT
            elif kindb == 'garbage':
                body, op = C.w_int(2) + b'\x00\x00\x00\x01\x00\x00\x00\x09garbage', C.RESULT
            elif kindb == 'schema_change':
                body = C.schema_change_body(beh.get('change', 'CREATED'), beh.get('target', 'TABLE'),
                                            beh.get('keyspace', 'ks1'), beh.get('name', 't%s' % rid), version=v)
                op = C.RESULT
                cl.on_ddl(self, rid, beh)
            else:
                pages = beh.get('pages')
                if pages is not None:
                    ps = entry.get('paging_state')
                    k = 0
                    if ps:
                        try:
                            k = int(ps.decode().split('-')[-1])
                        except Exception:
                            k = 0
                    n = pages[k] if k < len(pages) else 0
                    base = sum(pages[:k])
                    rows = [[rid, self.idx, base + i] for i in range(n)]
                    nxt = ('ps-%s-%d' % (rid, k + 1)).encode() if k + 1 < len(pages) else None
                    body = C.rows_body('ks1', 't', USER_COLS, rows, paging_state=nxt, version=v)
                    entry['page_index'] = k
                else:
                    nrows = beh.get('rows', 1)
                    rows = [[rid if rid is not None else -1, self.idx, i] for i in range(nrows)]
                    body = C.rows_body('ks1', 't', USER_COLS, rows, version=v)
                op = C.RESULT
            self.replies.append({'seq': sim.nlog, 't': round(sim.vnow(), 6), 'node': self.idx, 'conn': nc.label,
                                 'stream': s, 'rid': rid, 'attempt': attempt, 'kind': kindb})
            sim.rec('node.reply', 'n%d %s s=%d rid=%s %s' % (self.idx, nc.label, s, rid, kindb))
            nc.send(s, op, body, flags=flags, delay=0.0)
            th = beh.get('then')
            if th:
                # a fault bound to this reply: "the node answers, then dies / loses its connections"
                def after(th=th):
                    if th['kind'] == 'crash':
                        cl.crash(self.idx, how='rst', announce=th.get('announce'))
                    elif th['kind'] == 'rst_pool':
                        cl.rst_conns(self.idx, 'pool')
                cl.then_faults.append((sim.nlog, self.idx, rid, th['kind']))
                sim.at(th.get('after', 0.001), after, 'then-%s n%d' % (th['kind'], self.idx))
        sim.at(delay, reply, 'reply n%d rid=%s' % (self.idx, rid))

    # ---- events
    def push_event(self, kind, *args):
        for nc in self.live_conns():
            if kind in nc.events:
                body = C.event_body(kind, *args, version=nc.version or 4)
                nc.send(-1, C.EVENT, body)
                self.cluster.sim.rec('node.event', 'n%d %s %r' % (self.idx, kind, args[:2]))
                self.cluster.events_pushed.append((self.cluster.sim.nlog, self.idx, kind, args))

    def set_stalled(self, on):
        self.stalled = on
        self.cluster.sim.rec('fault', '%s n%d' % ('stall' if on else 'unstall', self.idx))
        if on:
            self.cluster.net.count('stall')
        else:
            for nc in self.conns:
                q, nc.queued = nc.queued, []
                for item in q:
                    if isinstance(item, tuple) and item[0] == 'reply':
                        item[1]()
                    else:
                        self.handle_frame(nc, item)


class FakeCluster(object):
    def __init__(self, sim, net, spec):
        """spec: {'nodes': [{'dc','rack','tokens','release','versions'}...], 'keyspaces': {name: replication map}}"""
        self.sim = sim
        self.net = net
        self.nodes = []
        self.members = []
        self.keyspaces = dict(spec.get('keyspaces') or {'ks1': {'class': 'org.apache.cassandra.locator.SimpleStrategy',
                                                                'replication_factor': '2'}})
        self.partitioner = spec.get('partitioner', MURMUR3)
        self.scripts = {}            # rid -> list of behaviours (consumed in arrival order)
        self.arrivals = {}
        self.decode_errors = []
        self.stream_reuse = []
        self.first_frames = []
        self.peer_overrides = {}     # (viewer idx, peer idx) -> column overrides
        self.extra_peer_rows = {}    # viewer idx -> extra raw rows
        self.events_pushed = []
        self.updown = []             # (log seq, node idx, up?) for every crash/restart
        self.polls = []
        self.snapshots_served = []
        self.snapshot_id = 0
        self.prepare_behaviours = [] # consumed per PREPARE (any node)
        self.unprepared_once = set() # rids that get one scripted UNPREPARED
        self.schema_lag = {}         # (viewer idx, peer idx) -> uuid shown instead
        self.sys_lat = spec.get('sys_lat', (0.0005, 0.004))
        self.user_lat = spec.get('user_lat', (0.0005, 0.01))
        self.sys_drops = []          # [(node idx or None, table prefix)] active drops
        self.ddl_hooks = []
        self.then_faults = []        # (seq, node idx, rid, kind): faults bound to a reply (script entry 'then')
        for i, ns in enumerate(spec['nodes']):
            n = FakeNode(self, i, dc=ns.get('dc', 'dc1'), rack=ns.get('rack', 'r1'), tokens=ns.get('tokens'),
                         release=ns.get('release', '3.11.4'), versions=tuple(ns.get('versions', (3, 4))),
                         addr=ns.get('addr'))
            n.beta_versions = set(ns.get('beta_versions', ()))
            if ns.get('auth'):
                n.auth = ns['auth']
            self.nodes.append(n)
            if ns.get('member', True):
                self.members.append(n)
            net.listen(n.addr, n)

    # behaviours ---------------------------------------------------------------------
    def next_behaviour(self, rid, node, entry):
        sc = self.scripts.get(rid)
        if sc:
            return sc.pop(0)
        sc = self.scripts.get('*%d' % node.idx)
        if sc:
            return sc[0] if len(sc) == 1 and sc[0].get('sticky') else sc.pop(0)
        return {'kind': 'ok'}

    def next_prepare_behaviour(self, node, q):
        if self.prepare_behaviours:
            return self.prepare_behaviours.pop(0)
        return 'ok'

    def force_unprepared(self, node, rid):
        key = (node.idx, rid)
        if key in self.unprepared_once:
            self.unprepared_once.discard(key)
            return True
        return False

    def prepared_id(self, q, ks):
        return hashlib.md5(('%s|%s' % (ks or '', q)).encode()).digest()

    def sys_latency(self, node):
        lo, hi = self.sys_lat
        return lo + (hi - lo) * self.sim.net_rng.random()

    def user_latency(self, node):
        lo, hi = self.user_lat
        return lo + (hi - lo) * self.sim.net_rng.random()

    def sys_drop(self, node, table):
        for (idx, prefix) in self.sys_drops:
            if (idx is None or idx == node.idx) and table.startswith(prefix):
                return True
        return False

    def schema_version_seen(self, viewer, peer):
        return self.schema_lag.get((viewer.idx, peer.idx), peer.schema_version)

    def on_ddl(self, node, rid, beh):
        for h in self.ddl_hooks:
            h(node, rid, beh)

    def node_by_addr(self, addr):
        for n in self.nodes:
            if n.addr == addr:
                return n
        return None

    # faults / operations --------------------------------------------------------------
    def crash(self, i, how='rst', announce=None):
        n = self.nodes[i]
        if not n.up:
            return
        n.up = False
        self.updown.append((self.sim.nlog, i, False))
        self.net.count('crash')
        self.sim.rec('fault', 'crash n%d (%s)' % (i, how))
        for nc in n.conns:
            if not nc.closed:
                if how == 'blackhole':
                    nc.conn.set_blackhole(True)
                else:
                    nc.conn.rst('rst')
        n.mode = 'blackhole' if how == 'blackhole' else 'refuse'
        if announce is not None:
            self.announce(i, 'STATUS_CHANGE', 'DOWN', delay=announce)

    def restart(self, i, announce=None):
        n = self.nodes[i]
        if n.up:
            return
        n.up = True
        self.updown.append((self.sim.nlog, i, True))
        n.mode = 'accept'
        n.prepared = {}
        n.generation += 1
        n.stalled = False
        self.net.count('restart')
        self.sim.rec('fault', 'restart n%d' % i)
        for nc in n.conns:
            if not nc.closed:
                nc.conn.rst('rst')
        if announce is not None:
            self.announce(i, 'STATUS_CHANGE', 'UP', delay=announce)

    def announce(self, i, kind, change, delay=0.0, from_nodes=None):
        """Other (up) nodes push an event about node i to their registered connections."""
        target = self.nodes[i]

        def emit():
            for n in self.nodes:
                if n is target or not n.up:
                    continue
                if from_nodes is not None and n.idx not in from_nodes:
                    continue
                n.push_event(kind, change, target.addr, 9042)
        self.sim.at(delay, emit, 'gossip %s %s n%d' % (kind, change, i))

    def rst_conns(self, i, which='all'):
        n = self.nodes[i]
        for nc in n.conns:
            if nc.closed or nc.conn.reset:
                continue
            if which == 'all' or (which == 'control' and nc.events) or (which == 'pool' and not nc.events):
                nc.conn.rst('rst')

    def remove_member(self, i, announce=0.0):
        n = self.nodes[i]
        if n in self.members:
            self.members.remove(n)
            self.snapshot_id += 1
            self.sim.rec('cluster', 'remove n%d' % i)
            if announce is not None:
                self.announce(i, 'TOPOLOGY_CHANGE', 'REMOVED_NODE', delay=announce)

    def add_member(self, i, announce=0.0):
        n = self.nodes[i]
        if n not in self.members:
            self.members.append(n)
            self.members.sort(key=lambda x: x.idx)
            self.snapshot_id += 1
            self.sim.rec('cluster', 'add n%d' % i)
            if announce is not None:
                self.announce(i, 'TOPOLOGY_CHANGE', 'NEW_NODE', delay=announce)

    def all_logs(self):
        out = []
        for n in self.nodes:
            out.extend(n.log)
        out.sort(key=lambda e: e['seq'])
        return out

    def user_log(self, rid=None):
        return [e for e in self.all_logs() if 'rid' in e and e.get('kind') and (rid is None or e['rid'] == rid)]
